//! Placeholder: /verif/lib/uv/replay_more.py overwrites this file (in the scratch copy of the replay crate)
//! with scenario functions generated from a solver model and its neighbourhood.
use std::collections::HashMap;
pub fn run(_name: &str, _p: &HashMap<String, String>) -> bool {
    false
}
