//! Native replay scenarios through unimock's PUBLIC API (no overlay, no instrumentation).
//! usage: uv_replay <scenario> key=value ...   -> prints one line `OBS key=value ...`
//! A process abort (double panic) leaves no OBS line and a SIGABRT status: the driver reads both.
use std::collections::HashMap;
use std::panic::{catch_unwind, AssertUnwindSafe};
use unimock::*;

#[unimock(api = FooMock)]
trait Foo {
    fn foo(&self, x: i32) -> i32;
    fn bar(&self, x: i32) -> i32;
    fn prov(&self) -> i32 {
        7
    }
}

fn args() -> (String, HashMap<String, String>) {
    let mut it = std::env::args().skip(1);
    let sc = it.next().unwrap_or_default();
    let mut m = HashMap::new();
    for a in it {
        if let Some((k, v)) = a.split_once('=') {
            m.insert(k.to_string(), v.to_string());
        }
    }
    (sc, m)
}

fn flag(m: &HashMap<String, String>, k: &str) -> bool {
    m.get(k).map(|v| v == "1" || v == "true").unwrap_or(false)
}
fn num(m: &HashMap<String, String>, k: &str) -> usize {
    m.get(k).and_then(|v| v.parse().ok()).unwrap_or(0)
}

pub fn panic_msg(e: Box<dyn std::any::Any + Send>) -> String {
    if let Some(s) = e.downcast_ref::<String>() {
        s.clone()
    } else if let Some(s) = e.downcast_ref::<&str>() {
        s.to_string()
    } else {
        "?".into()
    }
}

pub fn obs(outcome: &str, msg: &str) -> ! {
    let one_line: String = msg.replace('\n', " | ").chars().take(2000).collect();
    println!("OBS outcome={outcome} msg={one_line}");
    use std::io::Write;
    let _ = std::io::stdout().flush();
    std::process::exit(0)
}

/// lifecycle: who=original|clone action=drop|verify|report|noverify panicking clones=N other_thread recorded unmet helper chain_clone
fn lifecycle(p: &HashMap<String, String>) {
    std::panic::set_hook(Box::new(|_| {}));
    let unmet = flag(p, "unmet");
    let u = Unimock::new(FooMock::foo.each_call(matching!(1)).returns(10).n_times(1));
    if !unmet {
        assert_eq!(u.foo(1), 10);
    }
    for k in 0..num(p, "recorded") {
        // mock-induced panics (same kind, different text), swallowed, through a clone that is gone afterwards
        if flag(p, "via_original") {
            // ... or on the original itself (C18: routing never changes the verdict)
            let r = catch_unwind(AssertUnwindSafe(|| u.foo(99 - k as i32)));
            assert!(r.is_err());
        } else {
            let c = u.clone();
            let r = catch_unwind(AssertUnwindSafe(|| c.foo(99 - k as i32)));
            assert!(r.is_err());
            drop(c);
        }
    }
    if flag(p, "helper") {
        // default-method delegation on the original creates its internal helper clone
        assert_eq!(u.prov(), 7);
    }
    if flag(p, "chain_clone") {
        // a clone parked in the instance's own value chain (what `answers(&|u| u.make_ref(u.clone()))` does): teardown releases
        // the chain before it counts the live clones (C18 / C09)
        let _parked: &Unimock = u.make_ref(u.clone());
    }
    let clones: Vec<Unimock> = (0..num(p, "clones")).map(|_| u.clone()).collect();
    let who_clone = p.get("who").map(|s| s == "clone").unwrap_or(false);
    let action = p.get("action").cloned().unwrap_or_else(|| "drop".into());
    let panicking = flag(p, "panicking");
    let (subject, keep): (Unimock, Option<Unimock>) = if who_clone { (u.clone(), Some(u)) } else { (u, None) };
    let act = move || {
        let subject = subject;
        if panicking {
            // the subject is torn down while the thread unwinds: dropped by unwinding, or verified / reported explicitly from a
            // fixture's Drop impl (C11: never a second panic)
            struct Fixture(Option<Unimock>, String);
            impl Drop for Fixture {
                fn drop(&mut self) {
                    let subject = self.0.take().unwrap();
                    match self.1.as_str() {
                        "verify" => subject.verify(),
                        "noverify" => drop(subject.no_verify_in_drop()),
                        "report" => {
                            let _ = std::process::Termination::report(subject);
                        }
                        _ => drop(subject),
                    }
                }
            }
            let _guard = Fixture(Some(subject), action.clone());
            panic!("user panic (first)");
        }
        match action.as_str() {
            "drop" => drop(subject),
            "verify" => subject.verify(),
            "noverify" => drop(subject.no_verify_in_drop()),
            "noverify_clone_of_disabled" => {
                // the subject has verification in drop disabled; a clone taken AFTERWARDS must still be refused
                let subject = subject.no_verify_in_drop();
                let c = subject.clone();
                let r = catch_unwind(AssertUnwindSafe(move || drop(c.no_verify_in_drop())));
                std::mem::forget(subject);
                if let Err(e) = r {
                    std::panic::resume_unwind(e);
                }
            }
            "noverify_report" => {
                // report() is the same verdict also after no_verify_in_drop() (only the check AT DROP is disabled)
                let code = std::process::Termination::report(subject.no_verify_in_drop());
                let s = format!("{code:?}");
                if s.contains("1") && !s.contains("0)") {
                    std::panic::panic_any(String::from("EXITCODE FAILURE"));
                }
            }
            "report" => {
                let code = std::process::Termination::report(subject);
                let s = format!("{code:?}");
                if s.contains("1") && !s.contains("0)") {
                    std::panic::panic_any(String::from("EXITCODE FAILURE"));
                }
            }
            other => panic!("unknown action {other}"),
        }
    };
    let res = if flag(p, "other_thread") {
        std::thread::spawn(move || catch_unwind(AssertUnwindSafe(act))).join().unwrap()
    } else {
        catch_unwind(AssertUnwindSafe(act))
    };
    // keep clones / original alive until after the observation
    std::mem::forget(clones);
    std::mem::forget(keep);
    match res {
        Ok(()) => obs("ok", ""),
        Err(e) => obs("panic", &panic_msg(e)),
    }
}

//@ft-begin
// ---- fall-through scenarios (C07 / C15 / C16): trait shapes {default body?} x {unmock function?}
#[unimock(api = T00Mock)]
trait T00 {
    fn m(&self, x: i32) -> String;
}
#[unimock(api = T10Mock)]
trait T10 {
    fn req(&self) -> i32;
    fn m(&self, x: i32) -> String {
        format!("default({x})")
    }
}
#[unimock(api = T01Mock, unmock_with = [real01])]
trait T01 {
    fn m(&self, x: i32) -> String;
}
fn real01(_: &impl T01, x: i32) -> String {
    format!("real({x})")
}
#[unimock(api = T11Mock, unmock_with = [_, real11])]
trait T11 {
    fn req(&self) -> i32;
    fn m(&self, x: i32) -> String {
        format!("default({x})")
    }
}
fn real11(_: &impl T11, x: i32) -> String {
    format!("real({x})")
}

macro_rules! fallthrough_case {
    ($p:expr, $mock:ident, $tr:ident) => {{
        let partial = flag($p, "partial");
        let mention = $p.get("mention").cloned().unwrap_or_else(|| "none".into());
        let mk = |c: &dyn Fn() -> Unimock| c();
        let u = match (mention.as_str(), partial) {
            ("none", false) => mk(&|| Unimock::new(())),
            ("none", true) => mk(&|| Unimock::new_partial(())),
            (_, false) => mk(&|| Unimock::new($mock::m.each_call(matching!(1)).returns("mock").at_least_times(0))),
            (_, true) => mk(&|| Unimock::new_partial($mock::m.each_call(matching!(1)).returns("mock").at_least_times(0))),
        }
        .no_verify_in_drop();
        let arg = if mention == "match" { 1 } else { 5 };
        let r = catch_unwind(AssertUnwindSafe(|| <Unimock as $tr>::m(&u, arg)));
        match r {
            Ok(v) => obs("ok", &v),
            Err(e) => obs("panic", &panic_msg(e)),
        }
    }};
}

/// fallthrough: trait=00|10|01|11 partial=0|1 mention=none|nomatch|match
fn fallthrough(p: &HashMap<String, String>) {
    std::panic::set_hook(Box::new(|_| {}));
    match p.get("trait").map(|s| s.as_str()).unwrap_or("00") {
        "00" => fallthrough_case!(p, T00Mock, T00),
        "10" => fallthrough_case!(p, T10Mock, T10),
        "01" => fallthrough_case!(p, T01Mock, T01),
        _ => fallthrough_case!(p, T11Mock, T11),
    }
}

//@ft-end

mod gen;

fn main() {
    let (sc, p) = args();
    if gen::run(&sc, &p) {
        return;
    }
    match sc.as_str() {
        "lifecycle" => lifecycle(&p),
        "fallthrough" => fallthrough(&p),
        _ => {
            eprintln!("unknown scenario {sc}");
            std::process::exit(3)
        }
    }
}
