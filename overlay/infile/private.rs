
// ---- verification overlay (appended by /verif; not part of the repository) ----
#[cfg(kani)]
impl MismatchReporter {
    /// Same as new_enabled()/new_disabled(), but with room for the reports reserved up front: growth of the report
    /// list (realloc + memcpy of String-carrying entries) is what makes CBMC slow; the list itself is unchanged.
    pub fn kani_with_capacity(enabled: bool) -> Self {
        Self {
            enabled,
            mismatches: Vec::with_capacity(8),
        }
    }
}
