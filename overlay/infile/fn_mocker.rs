
// ---- verification overlay (appended by /verif; not part of the repository) ----
#[cfg(kani)]
pub(crate) mod kani_fn_mocker {
    use super::*;
    #[allow(unused_imports)]
    use crate::alloc::{vec, Vec};
    use crate::call_pattern::kani_call_pattern::no_matcher;
    use crate::call_pattern::CallPattern;
    use crate::verif::TestFn;

    pub(crate) fn pat(range: core::ops::Range<usize>, actual: usize, minimum: usize, tag: u8) -> CallPattern {
        CallPattern {
            input_matcher: no_matcher(),
            responders: Vec::new(),
            ordered_call_index_range: range,
            call_counter: counter::CallCounter::kani_with(actual, minimum, tag),
        }
    }

    //@ props=C04 tier=quick fns=FnMocker::find_call_pattern_for_call_order bounds="3 patterns of one method with arbitrary increasing disjoint slot ranges (full 64-bit bounds, empty ranges allowed); arbitrary global index"
    /// C04: the owner of global slot g within this method is the unique pattern whose range holds g, else None.
    #[kani::proof]
    #[kani::unwind(5)]
    fn c04_find_owner_of_slot() {
        let b: [usize; 6] = kani::any();
        kani::assume(b[0] <= b[1] && b[1] <= b[2] && b[2] <= b[3] && b[3] <= b[4] && b[4] <= b[5]);
        let g: usize = kani::any();
        let m = FnMocker {
            info: <TestFn as MockFn>::info(),
            pattern_match_mode: PatternMatchMode::InOrder,
            call_patterns: vec![pat(b[0]..b[1], 0, 0, 0), pat(b[2]..b[3], 0, 0, 0), pat(b[4]..b[5], 0, 0, 0)],
        };
        let got = m.find_call_pattern_for_call_order(g);
        let expect = if b[0] <= g && g < b[1] {
            Some(0)
        } else if b[2] <= g && g < b[3] {
            Some(1)
        } else if b[4] <= g && g < b[5] {
            Some(2)
        } else {
            None
        };
        match (got, expect) {
            (None, None) => {}
            (Some((PatIndex(i), p)), Some(e)) => {
                assert!(i == e);
                assert!(core::ptr::eq(p, &m.call_patterns[e]));
            }
            _ => assert!(false),
        }
        kani::cover!(expect == Some(2));
        kani::cover!(expect == Some(1) && b[0] == b[1], "empty first range");
        kani::cover!(expect.is_none() && g >= b[5], "past the end");
        kani::cover!(expect.is_none() && g > b[1] && g < b[2], "slot of another method");
        kani::cover!(expect == Some(0) && g + 1 == b[1], "last slot of a range");
        core::mem::forget(m);
    }

    //@ props=C03 tier=disabled fns=FnMocker::verify,CallCounter::verify,FnMocker::debug_pattern bounds="2 patterns; per pattern arbitrary (actual < 2^62, minimum, exactness) — all combinations, every subset violated"
    /// C03: |errors| = #violated patterns + [no pattern of the method was ever matched]; errors are in pattern
    /// order, the never-called line comes last and exists iff the total is 0.
    #[kani::proof]
    #[kani::unwind(4)]
    #[kani::stub(std::fmt::format, crate::verif::fmt_format_stub)]
    fn c03_fn_mocker_verify() {
        let a: [usize; 2] = kani::any();
        let min: [usize; 2] = kani::any();
        let tag: [u8; 2] = kani::any();
        kani::assume(a[0] < (1 << 62) && a[1] < (1 << 62));
        kani::assume(tag[0] < 3 && tag[1] < 3);
        kani::assume(!(tag[0] == 2 && min[0] == usize::MAX) && !(tag[1] == 2 && min[1] == usize::MAX));
        let m = FnMocker {
            info: <TestFn as MockFn>::info(),
            pattern_match_mode: PatternMatchMode::InAnyOrder,
            call_patterns: vec![pat(0..0, a[0], min[0], tag[0]), pat(0..0, a[1], min[1], tag[1])],
        };
        // capacity reserved up front: growth (realloc + memcpy of the large MockError enum) is what makes CBMC slow
        let mut errors: Vec<MockError> = Vec::with_capacity(4);
        m.verify(&mut errors);
        let viol = |i: usize| match tag[i] {
            0 => a[i] != min[i],
            1 => a[i] < min[i],
            _ => a[i] <= min[i],
        };
        let never = a[0] == 0 && a[1] == 0;
        let expect = viol(0) as usize + viol(1) as usize + never as usize;
        assert!(errors.len() == expect);
        // kinds in order, read with concrete indexes only (a symbolic index into a Vec of large enums is slow)
        let kind = |i: usize| -> u8 {
            if i >= errors.len() {
                0
            } else {
                match errors[i] {
                    MockError::FailedVerification(_) => 1,
                    MockError::MockNeverCalled { .. } => 2,
                    _ => 3,
                }
            }
        };
        let got = [kind(0), kind(1), kind(2)];
        let nv = viol(0) as usize + viol(1) as usize;
        let want = |i: usize| -> u8 {
            if i < nv {
                1
            } else if i == nv && never {
                2
            } else {
                0
            }
        };
        assert!(got[0] == want(0) && got[1] == want(1) && got[2] == want(2));
        assert!(m.call_patterns[0].call_counter.kani_actual() == a[0]);
        assert!(m.call_patterns[1].call_counter.kani_actual() == a[1]);
        kani::cover!(expect == 0, "silent");
        kani::cover!(expect == 3, "both violated and never called");
        kani::cover!(viol(0) && !viol(1) && !never);
        kani::cover!(!viol(0) && viol(1) && !never);
        kani::cover!(viol(0) && viol(1) && !never && a[0] > 0 && a[1] > 0, "both violated with non-zero counts");
        kani::cover!(never && !viol(0) && !viol(1), "never called but quantifiers satisfied (at_least 0)");
        core::mem::forget(errors);
        core::mem::forget(m);
    }
}
