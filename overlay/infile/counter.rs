
// ---- verification overlay (appended by /verif; not part of the repository) ----
#[cfg(kani)]
mod kani_counter {
    use super::*;
    #[allow(unused_imports)]
    use crate::alloc::{vec, Vec};
    use crate::call_pattern::PatIndex;
    use core::cell::Cell;
    use core::sync::atomic::Ordering::SeqCst;

    fn exactness(tag: u8) -> Exactness {
        match tag {
            0 => Exactness::Exact,
            1 => Exactness::AtLeast,
            _ => Exactness::AtLeastPlusOne,
        }
    }

    //@ props=C03 tier=quick fns=CallCounter::verify,CallCountExpectation::lower_bound bounds="minimum, actual: all 2^64 values; exactness: all 3 variants; minimum<MAX for AtLeastPlusOne"
    /// C03: for ALL (minimum, exactness, actual): `errors` grows by exactly [violated],
    /// the pattern description is only requested when violated, the counter is unchanged.
    #[kani::proof]
    #[kani::unwind(3)]
    #[kani::stub(std::fmt::format, crate::verif::fmt_format_stub)]
    fn c03_counter_verify_all() {
        let minimum: usize = kani::any();
        let actual: usize = kani::any();
        let tag: u8 = kani::any();
        kani::assume(tag < 3);
        // `minimum + 1` overflow (n_times(usize::MAX).then()) is an observation outside the claim.
        kani::assume(!(tag == 2 && minimum == usize::MAX));
        let counter = CallCounter {
            actual_count: AtomicUsize::new(actual),
            expectation: CallCountExpectation::new(minimum, exactness(tag)),
        };
        let info = MockFnInfo::new::<crate::verif::TestFn>();
        let asked = Cell::new(0u8);
        let mut errors: Vec<MockError> = Vec::new();
        let n = counter.verify(
            &info,
            || {
                asked.set(asked.get() + 1);
                debug::CallPatternDebug::new(info, debug::CallPatternLocation::PatIndex(PatIndex(7)))
            },
            &mut errors,
        );
        let violated = match tag {
            0 => actual != minimum,
            1 => actual < minimum,
            _ => actual <= minimum,
        };
        assert!(n.0 == actual);
        assert!(errors.len() == violated as usize);
        assert!(asked.get() == violated as u8);
        if violated {
            assert!(matches!(errors[0], MockError::FailedVerification(_)));
        }
        assert!(counter.actual_count.load(SeqCst) == actual);
        kani::cover!(violated && tag == 0 && actual > minimum, "exact, too many");
        kani::cover!(violated && tag == 0 && actual < minimum, "exact, too few");
        kani::cover!(violated && tag == 1, "at least, too few");
        kani::cover!(violated && tag == 2 && actual == minimum, "then(): exactly minimum is too few");
        kani::cover!(!violated && tag == 2, "then(): satisfied");
        kani::cover!(!violated && tag == 1 && actual > minimum, "at least: more is fine");
        core::mem::forget(errors);
    }

    //@ props=C02,C10 tier=quick fns=CallCounter::fetch_add,CallCountExpectation::into_counter bounds="counter value: all 2^64"
    /// C02/C10 step fact: fetch_add returns the old value and leaves old+1 (wrapping).
    #[kani::proof]
    fn c02_counter_fetch_add() {
        let actual: usize = kani::any();
        let counter = CallCountExpectation::new(kani::any(), exactness(kani::any())).into_counter();
        assert!(counter.actual_count.load(SeqCst) == 0);
        counter.actual_count.store(actual, SeqCst);
        let got = counter.fetch_add();
        assert!(got == actual);
        assert!(counter.actual_count.load(SeqCst) == actual.wrapping_add(1));
        kani::cover!(actual == 0);
        kani::cover!(actual > 5);
    }

    //@ props=C03,C04 tier=quick fns=CallCountExpectation::exact_calls,CallCountExpectation::lower_bound,CallCountExpectation::default bounds="minimum: all 2^64; exactness: all 3"
    /// C03/C04: `exact_calls` is Some(minimum) exactly for Exact; lower_bound per exactness.
    #[kani::proof]
    fn c03_expectation_accessors() {
        let minimum: usize = kani::any();
        let tag: u8 = kani::any();
        kani::assume(tag < 3);
        kani::assume(!(tag == 2 && minimum == usize::MAX));
        let e = CallCountExpectation::new(minimum, exactness(tag));
        match e.exact_calls() {
            Some(n) => assert!(tag == 0 && n.0 == minimum),
            None => assert!(tag != 0),
        }
        let lb = e.lower_bound().0;
        assert!(lb == if tag == 2 { minimum + 1 } else { minimum });
        let d = CallCountExpectation::default();
        assert!(d.minimum == 0 && matches!(d.exactness, Exactness::AtLeast));
        kani::cover!(tag == 0);
        kani::cover!(tag == 2);
    }

    //@ props=C02,C03 tier=quick fns=CallCountExpectation::add_to_minimum bounds="minimum, delta: all pairs without overflow; exactness: all 3x3"
    /// C02(b)/C03: add_to_minimum adds the delta and replaces the exactness.
    #[kani::proof]
    fn c03_add_to_minimum() {
        let minimum: usize = kani::any();
        let delta: usize = kani::any();
        kani::assume(minimum.checked_add(delta).is_some());
        let t0: u8 = kani::any();
        let t1: u8 = kani::any();
        kani::assume(t0 < 3 && t1 < 3);
        let mut e = CallCountExpectation::new(minimum, exactness(t0));
        e.add_to_minimum(delta, exactness(t1));
        assert!(e.minimum == minimum + delta);
        let got = match e.exactness {
            Exactness::Exact => 0,
            Exactness::AtLeast => 1,
            Exactness::AtLeastPlusOne => 2,
        };
        assert!(got == t1);
        kani::cover!(delta > 0 && t0 != t1);
    }
}

#[cfg(kani)]
impl CallCounter {
    /// Harness constructor: an arbitrary pre-state (inductive-step style).
    pub(crate) fn kani_with(actual: usize, minimum: usize, tag: u8) -> Self {
        CallCounter {
            actual_count: AtomicUsize::new(actual),
            expectation: CallCountExpectation::new(
                minimum,
                match tag {
                    0 => Exactness::Exact,
                    1 => Exactness::AtLeast,
                    _ => Exactness::AtLeastPlusOne,
                },
            ),
        }
    }
    pub(crate) fn kani_actual(&self) -> usize {
        self.actual_count.load(core::sync::atomic::Ordering::SeqCst)
    }
    pub(crate) fn kani_expectation(&self) -> (usize, u8) {
        (
            self.expectation.minimum,
            match self.expectation.exactness {
                Exactness::Exact => 0,
                Exactness::AtLeast => 1,
                Exactness::AtLeastPlusOne => 2,
            },
        )
    }
}
#[cfg(kani)]
impl CallCountExpectation {
    pub(crate) fn kani_parts(&self) -> (usize, u8) {
        (
            self.minimum,
            match self.exactness {
                Exactness::Exact => 0,
                Exactness::AtLeast => 1,
                Exactness::AtLeastPlusOne => 2,
            },
        )
    }
}
