
// ---- verification overlay (appended by /verif; not part of the repository) ----
#[cfg(kani)]
impl SharedState {
    pub(crate) fn kani_set_ordered_index(&self, g: usize) {
        self.next_ordered_call_index
            .store(g, core::sync::atomic::Ordering::SeqCst)
    }
    pub(crate) fn kani_ordered_index(&self) -> usize {
        self.next_ordered_call_index
            .load(core::sync::atomic::Ordering::SeqCst)
    }
}
