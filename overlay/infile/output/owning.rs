
// ---- verification overlay (appended by /verif; not part of the repository) ----
#[cfg(kani)]
mod kani_owning {
    use super::*;
    #[allow(unused_imports)]
    use crate::alloc::{vec, Vec};
    use core::sync::atomic::{AtomicUsize, Ordering::SeqCst};

    static DROPS: AtomicUsize = AtomicUsize::new(0);
    static CLONES: AtomicUsize = AtomicUsize::new(0);

    /// A payload that counts its drops and clones; NOT Clone-able through the single-use path.
    struct Tok(u8);
    impl Drop for Tok {
        fn drop(&mut self) {
            DROPS.fetch_add(1, SeqCst);
        }
    }
    struct CTok(u8);
    impl Clone for CTok {
        fn clone(&self) -> Self {
            CLONES.fetch_add(1, SeqCst);
            CTok(self.0)
        }
    }
    impl Drop for CTok {
        fn drop(&mut self) {
            DROPS.fetch_add(1, SeqCst);
        }
    }

    //@ props=C12,C02 tier=quick fns=<T0 as IntoReturnOnce<Owning<T>>>::into_return_once,<Owned<T> as GetOutput>::output,MutexIsh::locked bounds="payload value: all u8; number of output() requests r in 0..=4 (symbolic); then the holder is dropped"
    /// C12: a single-use value is delivered to exactly the first request, every later request gets None (which
    /// eval maps to a panic), and the value is dropped exactly once overall.
    #[kani::proof]
    #[kani::unwind(6)]
    fn c12_single_use_at_most_once() {
        let v: u8 = kani::any();
        let r: u8 = kani::any();
        kani::assume(r <= 4);
        let holder = <Tok as IntoReturnOnce<Owning<Tok>>>::into_return_once(Tok(v)).ok().unwrap();
        let mut delivered = 0u8;
        let mut i = 0u8;
        while i < r {
            match holder.output() {
                Some(t) => {
                    assert!(i == 0, "only the first request is served");
                    assert!(t.0 == v);
                    delivered += 1;
                    drop(t);
                }
                None => assert!(i > 0, "the first request must be served"),
            }
            i += 1;
        }
        assert!(delivered == if r > 0 { 1 } else { 0 });
        assert!(DROPS.load(SeqCst) == delivered as usize);
        drop(holder);
        // constructed (1) = delivered + dropped-with-the-holder: exactly one drop overall
        assert!(DROPS.load(SeqCst) == 1);
        kani::cover!(r == 0, "never requested: dropped with the mock");
        kani::cover!(r == 1);
        kani::cover!(r == 4 && delivered == 1, "three refused requests");
    }

    //@ props=C12,C02 tier=quick fns=<T0 as IntoReturn<Owning<T>>>::into_return,<Owned<T> as GetOutput>::output bounds="payload: all u8; requests r in 0..=3 (symbolic)"
    /// C12: a repeatable value yields one clone per request; the stored original stays intact until the holder drops.
    #[kani::proof]
    #[kani::unwind(5)]
    fn c12_repeatable_clones_per_request() {
        let v: u8 = kani::any();
        let r: u8 = kani::any();
        kani::assume(r <= 3);
        let holder = <CTok as IntoReturn<Owning<CTok>>>::into_return(CTok(v)).ok().unwrap();
        let mut i = 0u8;
        while i < r {
            match holder.output() {
                Some(t) => {
                    assert!(t.0 == v);
                    drop(t);
                }
                None => assert!(false, "a repeatable value never runs out"),
            }
            i += 1;
        }
        assert!(CLONES.load(SeqCst) == r as usize);
        assert!(DROPS.load(SeqCst) == r as usize, "the original is still stored");
        drop(holder);
        assert!(DROPS.load(SeqCst) == r as usize + 1);
        kani::cover!(r == 3);
        kani::cover!(r == 0);
    }

    //@ props=C12,C17 tier=quick fns=<T as ReturnDefault<Owning<T>>>::return_default bounds="requests r in 0..=3"
    #[kani::proof]
    #[kani::unwind(5)]
    fn c12_return_default_every_time() {
        let r: u8 = kani::any();
        kani::assume(r <= 3);
        let holder = <u16 as ReturnDefault<Owning<u16>>>::return_default();
        let mut i = 0u8;
        while i < r {
            assert!(holder.output() == Some(0u16));
            i += 1;
        }
        kani::cover!(r == 3);
    }
}
