
// ---- verification overlay (appended by /verif; not part of the repository) ----
#[cfg(kani)]
pub(crate) mod kani_call_pattern {
    use super::*;
    #[allow(unused_imports)]
    use crate::alloc::{vec, Vec};
    use crate::verif::{TestFn, TestFn0, TestFn2};

    pub(crate) fn no_matcher() -> DynInputMatcher {
        DynInputMatcher {
            dyn_matching_fn: None,
            matcher_debug: None,
        }
    }

    fn resp(idx: usize, tag: u8) -> DynCallOrderResponder {
        DynCallOrderResponder {
            response_index: idx,
            responder: match tag {
                0 => DynResponder::Unmock,
                _ => DynResponder::ApplyDefaultImpl,
            },
        }
    }

    fn which(responders: &[DynCallOrderResponder], found: Option<&DynResponder>) -> usize {
        match found {
            None => usize::MAX,
            Some(r) => {
                let mut i = 0;
                while i < responders.len() {
                    if core::ptr::eq(r, &responders[i].responder) {
                        return i;
                    }
                    i += 1;
                }
                usize::MAX - 1
            }
        }
    }

    //@ props=C02,C04 tier=quick fns=find_responder_by_call_index bounds="S<=4 segments (symbolic S in 1..=4); repeat counts n_i: all values < 2^60 INCLUDING 0 (duplicate start indexes); call index k: all 2^64"
    /// C02(a): chosen responder = first i with n_1+..+n_i > k, else the last one.
    #[kani::proof]
    #[kani::unwind(6)]
    fn c02_find_responder_by_call_index() {
        let n1: usize = kani::any();
        let n2: usize = kani::any();
        let n3: usize = kani::any();
        kani::assume(n1 < (1 << 60) && n2 < (1 << 60) && n3 < (1 << 60));
        let s: usize = kani::any();
        kani::assume(s >= 1 && s <= 4);
        let k: usize = kani::any();
        let all = vec![resp(0, 0), resp(n1, 1), resp(n1 + n2, 0), resp(n1 + n2 + n3, 1)];
        let responders = &all[..s];
        let got = which(responders, find_responder_by_call_index(responders, k));
        // oracle: first segment whose exclusive end exceeds k; the last segment is open-ended
        let ends = [n1, n1 + n2, n1 + n2 + n3];
        let mut expect = s - 1;
        let mut i = 0;
        while i + 1 < s {
            if ends[i] > k {
                expect = i;
                break;
            }
            i += 1;
        }
        assert!(got == expect);
        kani::cover!(s == 4 && got == 3, "last segment");
        kani::cover!(s == 4 && n2 == 0 && k == n1 && got == 2, "zero-count segment skipped");
        kani::cover!(s == 4 && n1 == 0 && n2 == 0 && got == 2, "two zero-count segments skipped");
        kani::cover!(s == 3 && got == 0 && k > 0, "first segment, k > 0");
        kani::cover!(s == 1 && k > 1000, "single open-ended responder");
        core::mem::forget(all);
    }

    //@ props=C02 tier=quick fns=find_responder_by_call_index bounds="empty responder list; k: all 2^64"
    #[kani::proof]
    #[kani::unwind(3)]
    fn c02_find_responder_empty() {
        let k: usize = kani::any();
        let v: Vec<DynCallOrderResponder> = Vec::new();
        assert!(find_responder_by_call_index(&v, k).is_none());
        kani::cover!(k > 3);
    }

    //@ props=C02,C10 tier=quick fns=CallPattern::next_responder,CallCounter::fetch_add,find_responder_by_call_index bounds="arbitrary counter value c < 2^64-1; 3 responders with boundaries n1,n2 < 2^60 (zero allowed)"
    /// C02(c): from an arbitrary counter value c, next_responder uses index c and leaves c+1.
    #[kani::proof]
    #[kani::unwind(6)]
    fn c02_next_responder_step() {
        let c: usize = kani::any();
        kani::assume(c < usize::MAX);
        let n1: usize = kani::any();
        let n2: usize = kani::any();
        kani::assume(n1 < (1 << 60) && n2 < (1 << 60));
        let pattern = CallPattern {
            input_matcher: no_matcher(),
            responders: vec![resp(0, 0), resp(n1, 1), resp(n1 + n2, 0)],
            ordered_call_index_range: 0..0,
            call_counter: counter::CallCounter::kani_with(c, kani::any(), 1),
        };
        let got = which(&pattern.responders, pattern.next_responder());
        let expect = if c < n1 { 0 } else if c < n1 + n2 { 1 } else { 2 };
        assert!(got == expect);
        assert!(pattern.call_counter.kani_actual() == c + 1);
        kani::cover!(got == 0 && c > 0);
        kani::cover!(got == 1);
        kani::cover!(got == 2 && n2 == 0);
        core::mem::forget(pattern);
    }

    //@ props=C01,C06 tier=quick fns=CallPattern::match_inputs,DynInputMatcher::from_matching_fn,downcast_box bounds="argument and matcher constant: all u8 x u8; reporter on/off; matcher of the right type, of another MockFn's type, or absent"
    /// The stored matcher is the registered closure: right type => the closure's verdict with the caller's
    /// inputs; a matcher registered for another MockFn => Downcast error; no matcher => NoMatcherFunction.
    #[kani::proof]
    #[kani::unwind(3)]
    fn c01_match_inputs_downcast() {
        let want: u8 = kani::any();
        let arg: u8 = kani::any();
        let with_reporter: bool = kani::any();
        let kind: u8 = kani::any();
        kani::assume(kind < 3);
        let input_matcher = match kind {
            0 => DynInputMatcher::from_matching_fn::<TestFn>(&move |m| m.func(move |i: &u8, _| *i == want)),
            1 => DynInputMatcher::from_matching_fn::<TestFn2>(&move |m| m.func(move |i: &u16, _| *i == 3)),
            _ => DynInputMatcher::from_matching_fn::<TestFn>(&|_m| {}),
        };
        let pattern = CallPattern {
            input_matcher,
            responders: Vec::new(),
            ordered_call_index_range: 0..0,
            call_counter: counter::CallCounter::kani_with(0, 0, 1),
        };
        let mut rep = MismatchReporter::new_enabled();
        let res = pattern.match_inputs::<TestFn>(&arg, if with_reporter { Some(&mut rep) } else { None });
        match kind {
            0 => assert!(matches!(res, Ok(b) if b == (arg == want))),
            1 => assert!(matches!(res, Err(PatternError::Downcast))),
            _ => assert!(matches!(res, Err(PatternError::NoMatcherFunction))),
        }
        assert!(pattern.call_counter.kani_actual() == 0);
        kani::cover!(kind == 0 && arg == want && with_reporter);
        kani::cover!(kind == 0 && arg != want && !with_reporter);
        kani::cover!(kind == 1);
        kani::cover!(kind == 2);
        core::mem::forget(pattern);
    }
    //@ props=C01,C06 tier=quick fns=CallPattern::match_inputs,DynInputMatcher::from_matching_fn,downcast_box bounds="zero-sized inputs; matcher verdict symbolic; reporter on/off"
    /// A matcher over zero-sized inputs is still consulted: the verdict is the closure's, not a constant.
    #[kani::proof]
    #[kani::unwind(3)]
    fn c01_match_inputs_zero_sized() {
        let accept: bool = kani::any();
        let with_reporter: bool = kani::any();
        let input_matcher = DynInputMatcher::from_matching_fn::<TestFn0>(&move |m| m.func(move |_i: &(), _| accept));
        let pattern = CallPattern {
            input_matcher,
            responders: Vec::new(),
            ordered_call_index_range: 0..0,
            call_counter: counter::CallCounter::kani_with(0, 0, 1),
        };
        let mut rep = MismatchReporter::new_enabled();
        let res = pattern.match_inputs::<TestFn0>(&(), if with_reporter { Some(&mut rep) } else { None });
        assert!(matches!(res, Ok(b) if b == accept));
        kani::cover!(accept && with_reporter);
        kani::cover!(!accept && !with_reporter);
        core::mem::forget(pattern);
    }
}
