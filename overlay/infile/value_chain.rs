
// ---- verification overlay (appended by /verif; not part of the repository) ----
#[cfg(kani)]
mod kani_value_chain {
    use super::*;
    #[allow(unused_imports)]
    use crate::alloc::{vec, Vec};
    use core::sync::atomic::{AtomicUsize, Ordering::SeqCst};

    static DROPS: AtomicUsize = AtomicUsize::new(0);
    struct D8(u8);
    impl Drop for D8 {
        fn drop(&mut self) {
            DROPS.fetch_add(1, SeqCst);
        }
    }
    struct D16(u16);
    impl Drop for D16 {
        fn drop(&mut self) {
            DROPS.fetch_add(1, SeqCst);
        }
    }

    //@ props=C13 tier=quick fns=ValueChain::push,ValueChain::push_value,ValueChain::push_node,Node::new,Value::downcast_ref bounds="2 shared pushes, the type of the second one symbolic (same / different type), all values symbolic; chain leaked at the end (drop is decided by c13_chain_drop_once)" features=std
    /// C13: every reference returned by a push still reads its own value after a later push; references are distinct;
    /// nothing is dropped while the chain lives.
    #[kani::proof]
    #[kani::unwind(5)]
    fn c13_shared_pushes_stay_valid() {
        let a: u8 = kani::any();
        let b: u16 = kani::any();
        let second_is_u16: bool = kani::any();
        let chain = ValueChain::default();
        let r0: &D8 = chain.push(D8(a));
        if second_is_u16 {
            let r1: &D16 = chain.push(D16(b));
            assert!(r1.0 == b);
        } else {
            let r1: &D8 = chain.push(D8(b as u8));
            assert!(r1.0 == b as u8);
            assert!(!core::ptr::eq(r1, r0));
        }
        assert!(r0.0 == a, "the first reference still reads its own value");
        assert!(DROPS.load(SeqCst) == 0, "nothing is released while borrowed");
        kani::cover!(second_is_u16);
        kani::cover!(!second_is_u16 && a == b as u8, "equal values, distinct cells");
        core::mem::forget(chain);
    }

    //@ props=C13 tier=thorough fns=ValueChain::push,ValueChain::push_node bounds="3 shared pushes (u8, u16, u8), values symbolic; chain leaked" features=std
    #[kani::proof]
    #[kani::unwind(6)]
    fn c13_three_shared_pushes() {
        let a: u8 = kani::any();
        let b: u16 = kani::any();
        let c: u8 = kani::any();
        let chain = ValueChain::default();
        let r0: &D8 = chain.push(D8(a));
        let r1: &D16 = chain.push(D16(b));
        let r2: &D8 = chain.push(D8(c));
        assert!(r0.0 == a && r1.0 == b && r2.0 == c);
        assert!(!core::ptr::eq(r0, r2));
        assert!(DROPS.load(SeqCst) == 0);
        kani::cover!(a == c);
        core::mem::forget(chain);
    }

    //@ props=C13 tier=quick fns=<ValueChain as Drop>::drop,ValueChain::push bounds="chains of 0, 1 and 2 values (symbolic choice), then drop" features=std
    /// C13: lent values are dropped exactly once, when the chain is dropped (not before).
    #[kani::proof]
    #[kani::unwind(5)]
    fn c13_chain_drop_once() {
        let n: u8 = kani::any();
        kani::assume(n <= 2);
        let chain = ValueChain::default();
        if n >= 1 {
            chain.push(D8(1));
        }
        if n >= 2 {
            chain.push(D16(2));
        }
        assert!(DROPS.load(SeqCst) == 0);
        drop(chain);
        assert!(DROPS.load(SeqCst) == n as usize);
        kani::cover!(n == 2);
        kani::cover!(n == 0);
    }

    //@ props=C13 tier=quick fns=ValueChain::push_mut,ValueChain::push_value_mut,Value::downcast_mut,ValueChain::push bounds="shared push, then exclusive push, then shared push; values symbolic" features=std
    /// C13: make_mut (exclusive access) returns the NEW value, releases the earlier ones exactly once, and later
    /// shared pushes append after it.
    #[kani::proof]
    #[kani::unwind(6)]
    fn c13_exclusive_push_replaces_chain() {
        let a: u8 = kani::any();
        let b: u8 = kani::any();
        let c: u16 = kani::any();
        let mut chain = ValueChain::default();
        {
            let r0 = chain.push(D8(a));
            assert!(r0.0 == a);
        }
        let m: &mut D8 = chain.push_mut(D8(b));
        assert!(m.0 == b, "the reference points at the value just lent");
        m.0 = m.0.wrapping_add(1);
        assert!(DROPS.load(SeqCst) == 1, "only make_mut releases earlier values");
        let r2 = chain.push(D16(c));
        assert!(r2.0 == c);
        assert!(DROPS.load(SeqCst) == 1);
        kani::cover!(a == b);
        kani::cover!(a != b);
        core::mem::forget(chain);
    }
}
