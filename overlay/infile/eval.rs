
// ---- verification overlay (appended by /verif; not part of the repository) ----
#[cfg(kani)]
mod kani_eval {
    use super::*;
    #[allow(unused_imports)]
    use crate::alloc::{vec, BTreeMap, Vec};
    use crate::fn_mocker::kani_fn_mocker::pat;
    use crate::verif::TestFn;
    use core::cell::Cell;

    fn idx_of(m: &FnMocker, p: &CallPattern) -> usize {
        let mut i = 0;
        while i < m.call_patterns.len() {
            if core::ptr::eq(p, &m.call_patterns[i]) {
                return i;
            }
            i += 1;
        }
        usize::MAX
    }

    fn no_inputs() -> Box<[Option<String>]> {
        Box::new([])
    }

    //@ props=C01,C06,C07 tier=quick fns=DynCtx::match_call_pattern(InAnyOrder),DynCtx::map_pattern_error bounds="K=3 patterns; each pattern's verdict in {reject, accept, matcher error}: all 27 tables; arbitrary prior match counts (full 64-bit); arbitrary global ordered index"
    /// C01(a): the scan returns the least index whose matcher does not reject (accept => that pattern,
    /// error => mapped error), consults no later pattern, runs matchers with diagnostics OFF, and changes neither
    /// any counter nor the global ordered index.
    #[kani::proof]
    #[kani::unwind(5)]
    #[kani::stub(std::fmt::format, crate::verif::fmt_format_stub)]
    fn c01_scan_first_match() {
        let verdict: [u8; 3] = kani::any();
        kani::assume(verdict[0] < 3 && verdict[1] < 3 && verdict[2] < 3);
        let counts: [usize; 3] = kani::any();
        let g: usize = kani::any();
        let m = FnMocker {
            info: <TestFn as MockFn>::info(),
            pattern_match_mode: PatternMatchMode::InAnyOrder,
            call_patterns: vec![pat(0..0, counts[0], 0, 1), pat(0..0, counts[1], 0, 1), pat(0..0, counts[2], 0, 1)],
        };
        let state = SharedState::new(BTreeMap::new(), FallbackMode::Error);
        state.kani_set_ordered_index(g);
        let ctx = DynCtx {
            info: <TestFn as MockFn>::info(),
            shared_state: &state,
            input_debugger: &no_inputs,
        };
        let asked = Cell::new(0u8); // bit i set when pattern i's matcher ran
        let diag_on = Cell::new(false);
        let res = ctx.match_call_pattern(&m, &|p, rep| {
            let i = idx_of(&m, p);
            asked.set(asked.get() | (1 << i));
            if rep.is_some() {
                diag_on.set(true);
            }
            match verdict[i] {
                0 => Ok(false),
                1 => Ok(true),
                _ => Err(PatternError::Downcast),
            }
        });
        let first = if verdict[0] != 0 {
            0
        } else if verdict[1] != 0 {
            1
        } else if verdict[2] != 0 {
            2
        } else {
            3
        };
        match &res {
            Ok(None) => assert!(first == 3),
            Ok(Some((PatIndex(i), p))) => {
                assert!(*i == first && verdict[first] == 1);
                assert!(idx_of(&m, p) == first);
            }
            Err(e) => {
                assert!(first < 3 && verdict[first] == 2);
                assert!(matches!(e, MockError::Downcast { .. }));
            }
        }
        // exactly the patterns up to and including the first non-rejecting one were consulted
        let expect_asked: u8 = match first {
            0 => 0b001,
            1 => 0b011,
            _ => 0b111,
        };
        assert!(asked.get() == expect_asked);
        assert!(!diag_on.get());
        assert!(m.call_patterns[0].call_counter.kani_actual() == counts[0]);
        assert!(m.call_patterns[1].call_counter.kani_actual() == counts[1]);
        assert!(m.call_patterns[2].call_counter.kani_actual() == counts[2]);
        assert!(state.kani_ordered_index() == g);
        kani::cover!(first == 2 && verdict[2] == 1 && counts[0] > 7, "only the last pattern accepts");
        kani::cover!(first == 0 && verdict[1] == 1 && verdict[2] == 1, "all accept: first wins");
        kani::cover!(first == 3, "nothing accepts");
        kani::cover!(first == 1 && verdict[1] == 2, "matcher error at the second pattern");
        core::mem::forget(res);
        core::mem::forget(m);
        core::mem::forget(state);
    }

    //@ props=C04 tier=quick fns=DynCtx::match_call_pattern(InOrder),SharedState::bump_ordered_call_index,FnMocker::find_call_pattern_for_call_order bounds="one step from an arbitrary global index g (< 2^64-1); 3 patterns of the called method with arbitrary increasing disjoint slot ranges; owner's verdict in {reject, accept}; arbitrary prior counts"
    /// C04: one ordered call. Ok(i) iff g is in range_i and pattern i accepts (only the owner is consulted, with
    /// diagnostics ON); CallOrderNotMatchedForMockFn iff no range of this method holds g;
    /// InputsNotMatchedInCallOrder iff the owner rejects; g becomes g+1 in every case; no counter moves.
    #[kani::proof]
    #[kani::unwind(5)]
    #[kani::stub(std::fmt::format, crate::verif::fmt_format_stub)]
    fn c04_in_order_step() {
        let b: [usize; 6] = kani::any();
        kani::assume(b[0] <= b[1] && b[1] <= b[2] && b[2] <= b[3] && b[3] <= b[4] && b[4] <= b[5]);
        let g: usize = kani::any();
        kani::assume(g < usize::MAX);
        let accept: [bool; 3] = kani::any();
        let counts: [usize; 3] = kani::any();
        let m = FnMocker {
            info: <TestFn as MockFn>::info(),
            pattern_match_mode: PatternMatchMode::InOrder,
            call_patterns: vec![
                pat(b[0]..b[1], counts[0], 0, 0),
                pat(b[2]..b[3], counts[1], 0, 0),
                pat(b[4]..b[5], counts[2], 0, 0),
            ],
        };
        let state = SharedState::new(BTreeMap::new(), FallbackMode::Error);
        state.kani_set_ordered_index(g);
        let ctx = DynCtx {
            info: <TestFn as MockFn>::info(),
            shared_state: &state,
            input_debugger: &no_inputs,
        };
        let asked = Cell::new(0u8);
        let diag_off = Cell::new(false);
        let res = ctx.match_call_pattern(&m, &|p, rep| {
            let i = idx_of(&m, p);
            asked.set(asked.get() | (1 << i));
            if rep.is_none() {
                diag_off.set(true);
            }
            Ok(accept[i])
        });
        let owner = if b[0] <= g && g < b[1] {
            0
        } else if b[2] <= g && g < b[3] {
            1
        } else if b[4] <= g && g < b[5] {
            2
        } else {
            3
        };
        match &res {
            Ok(Some((PatIndex(i), p))) => {
                assert!(owner < 3 && *i == owner && accept[owner]);
                assert!(idx_of(&m, p) == owner);
            }
            Ok(None) => assert!(false),
            Err(MockError::CallOrderNotMatchedForMockFn { actual_call_order, .. }) => {
                assert!(owner == 3);
                assert!(actual_call_order.0 == g);
                assert!(asked.get() == 0);
            }
            Err(MockError::InputsNotMatchedInCallOrder { actual_call_order, .. }) => {
                assert!(owner < 3 && !accept[owner]);
                assert!(actual_call_order.0 == g);
            }
            Err(_) => assert!(false),
        }
        if owner < 3 {
            assert!(asked.get() == 1 << owner);
            assert!(!diag_off.get());
        }
        assert!(state.kani_ordered_index() == g + 1);
        assert!(m.call_patterns[0].call_counter.kani_actual() == counts[0]);
        assert!(m.call_patterns[1].call_counter.kani_actual() == counts[1]);
        assert!(m.call_patterns[2].call_counter.kani_actual() == counts[2]);
        kani::cover!(owner == 1 && accept[1], "accepted by the owner");
        kani::cover!(owner == 2 && !accept[2] && accept[0] && accept[1], "owner rejects although others would accept");
        kani::cover!(owner == 3 && g >= b[5], "past the end");
        kani::cover!(owner == 3 && g < b[4] && g >= b[3], "slot belongs to another method");
        core::mem::forget(res);
        core::mem::forget(m);
        core::mem::forget(state);
    }

    //@ props=C04,C02 tier=thorough fns=DynCtx::eval_dyn,DynCtx::match_call_pattern,CallPattern::next_responder,find_responder_by_call_index,SharedState::bump_ordered_call_index bounds="one ordered call through eval_dyn (stable signature): method table with 1 entry, 2 ordered patterns with arbitrary increasing slot ranges, the second with a 2-segment response chain (boundary n1 < 2^60), arbitrary global index g and arbitrary prior match count c of the owner; the owner accepts"
    /// C04/C02: an accepted ordered call gets the response its OWN match count selects inside the slot range
    /// (pattern-relative position, never the global index), bumps exactly that pattern's counter and the global index.
    #[kani::proof]
    #[kani::unwind(6)]
    #[kani::stub(std::fmt::format, crate::verif::fmt_format_stub)]
    fn c04_eval_dyn_ordered_response() {
        use crate::call_pattern::DynCallOrderResponder;
        let b: [usize; 4] = kani::any();
        kani::assume(b[0] <= b[1] && b[1] <= b[2] && b[2] < b[3]);
        let g: usize = kani::any();
        kani::assume(b[2] <= g && g < b[3]);
        let c: usize = kani::any();
        kani::assume(c < usize::MAX);
        let n1: usize = kani::any();
        kani::assume(n1 < (1 << 60));
        let mut p0 = pat(b[0]..b[1], 0, 0, 0);
        p0.responders = vec![DynCallOrderResponder { response_index: 0, responder: DynResponder::Unmock }];
        let mut p1 = pat(b[2]..b[3], c, 0, 0);
        p1.responders = vec![
            DynCallOrderResponder { response_index: 0, responder: DynResponder::Unmock },
            DynCallOrderResponder { response_index: n1, responder: DynResponder::ApplyDefaultImpl },
        ];
        let info = <TestFn as MockFn>::info();
        let mut map = BTreeMap::new();
        map.insert(
            info.type_id,
            FnMocker { info, pattern_match_mode: PatternMatchMode::InOrder, call_patterns: vec![p0, p1] },
        );
        let state = SharedState::new(map, FallbackMode::Error);
        state.kani_set_ordered_index(g);
        let ctx = DynCtx { info, shared_state: &state, input_debugger: &no_inputs };
        let res = ctx.eval_dyn(&|_p, _rep| Ok(true));
        let fm = state.fn_mockers.get(&info.type_id).unwrap();
        match &res {
            Ok(EvalResult::Responder(r)) => {
                let want = if c < n1 { 0 } else { 1 };
                assert!(core::ptr::eq(r.dyn_responder, &fm.call_patterns[1].responders[want].responder));
                assert!(r.pat_index.0 == 1);
            }
            _ => assert!(false, "an accepted ordered call must get a responder"),
        }
        assert!(fm.call_patterns[1].call_counter.kani_actual() == c + 1);
        assert!(fm.call_patterns[0].call_counter.kani_actual() == 0);
        assert!(state.kani_ordered_index() == g + 1);
        kani::cover!(c < n1 && g > c, "first segment although the global index is larger");
        kani::cover!(c >= n1 && b[2] > 0, "second segment");
        core::mem::forget(res);
        core::mem::forget(state);
    }
}
