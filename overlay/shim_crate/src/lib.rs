//! Verification-only stand-in for `once_cell::sync::OnceCell` (Kani cannot compile the std implementation: ICE on the
//! catch_unwind intrinsic). It is once_cell's own *unsync* cell behind the `sync` API the crate uses; the claim made
//! with it is single-threaded. Only ever a dependency of the scratch copy, under cfg(kani).
#![no_std]
pub mod sync {
    pub struct OnceCell<T>(once_cell::unsync::OnceCell<T>);
    // single-threaded model: Kani has no threads
    unsafe impl<T: Send + Sync> Sync for OnceCell<T> {}
    unsafe impl<T: Send> Send for OnceCell<T> {}
    impl<T> Default for OnceCell<T> {
        fn default() -> Self {
            OnceCell(once_cell::unsync::OnceCell::new())
        }
    }
    impl<T> From<T> for OnceCell<T> {
        fn from(v: T) -> Self {
            OnceCell(once_cell::unsync::OnceCell::from(v))
        }
    }
    impl<T> OnceCell<T> {
        pub const fn new() -> Self {
            OnceCell(once_cell::unsync::OnceCell::new())
        }
        pub const fn with_value(value: T) -> Self {
            OnceCell(once_cell::unsync::OnceCell::with_value(value))
        }
        pub fn get(&self) -> Option<&T> {
            self.0.get()
        }
        pub fn get_mut(&mut self) -> Option<&mut T> {
            self.0.get_mut()
        }
        pub fn get_or_init<F: FnOnce() -> T>(&self, f: F) -> &T {
            self.0.get_or_init(f)
        }
        pub fn try_insert(&self, value: T) -> Result<&T, (&T, T)> {
            self.0.try_insert(value)
        }
        pub fn take(&mut self) -> Option<T> {
            self.0.take()
        }
        pub fn into_inner(self) -> Option<T> {
            self.0.into_inner()
        }
        pub fn set(&self, value: T) -> Result<(), T> {
            self.0.set(value)
        }
    }
}
