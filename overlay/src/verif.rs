//! Verification overlay (never committed to the repository): helpers shared by the
//! in-file Kani harness modules and the external harness crate. Compiled only under
//! `cfg(kani)` / `cfg(unimock_verif)`.
#![allow(dead_code, missing_docs)]

use crate::alloc::String;

/// Replacement body for `alloc::fmt::format` in Kani harnesses: message text is outside
/// every Kani claim.
pub fn fmt_format_stub(_args: core::fmt::Arguments<'_>) -> String {
    String::new()
}

use crate::{MockFn, MockFnInfo, Unimock};

/// The concrete instantiation of the generic runtime used by the in-file harnesses.
pub struct TestFn;
impl MockFn for TestFn {
    type Inputs<'i> = u8;
    type OutputKind = crate::output::Owning<u8>;
    type AnswerFn = dyn (Fn(&Unimock, u8) -> u8) + Send + Sync;
    fn info() -> MockFnInfo {
        MockFnInfo::new::<Self>().path(&["TestTrait", "f"])
    }
}

/// A method without inputs (zero-sized `Inputs`): its matcher is still a predicate (a guard may read outside state).
pub struct TestFn0;
impl MockFn for TestFn0 {
    type Inputs<'i> = ();
    type OutputKind = crate::output::Owning<u8>;
    type AnswerFn = dyn (Fn(&Unimock) -> u8) + Send + Sync;
    fn info() -> MockFnInfo {
        MockFnInfo::new::<Self>().path(&["TestTrait", "z"])
    }
}

/// A second, distinct method.
pub struct TestFn2;
impl MockFn for TestFn2 {
    type Inputs<'i> = u16;
    type OutputKind = crate::output::Owning<u16>;
    type AnswerFn = dyn (Fn(&Unimock, u16) -> u16) + Send + Sync;
    fn info() -> MockFnInfo {
        MockFnInfo::new::<Self>().path(&["TestTrait", "g"])
    }
}

/// `use crate::verif::std_shim as std;` is prepended (under cfg(kani)) to state.rs / teardown.rs: a module-level
/// name shadows the extern prelude, so `std::thread::current().id()` / `std::thread::panicking()` resolve here.
/// Kani cannot compile the real `thread::current()` (ICE on the catch_unwind intrinsic via thread_local dtors).
/// Thread identity and the panicking flag become harness-controlled values; everything else is real std.
#[cfg(all(kani, feature = "std"))]
pub mod std_shim {
    pub use ::std::*;
    pub mod thread {
        use core::sync::atomic::{AtomicBool, AtomicU64, Ordering::SeqCst};
        pub static CURRENT: AtomicU64 = AtomicU64::new(1);
        pub static PANICKING: AtomicBool = AtomicBool::new(false);
        #[derive(Clone, Copy, PartialEq, Eq, Debug)]
        pub struct ThreadId(pub u64);
        pub struct Thread(u64);
        impl Thread {
            pub fn id(&self) -> ThreadId {
                ThreadId(self.0)
            }
        }
        pub fn current() -> Thread {
            Thread(CURRENT.load(SeqCst))
        }
        pub fn panicking() -> bool {
            PANICKING.load(SeqCst)
        }
    }
}

// ------------------------------------------------------------------------------------------------------------
// helpers for the external harness crate (macro expansions hard-code `::unimock`, so those harnesses live outside)

/// Run the closure a `matching!` invocation registers, with diagnostics on or off.
/// Returns (accepted, bit mask of the argument positions reported as mismatching, number of reports).
pub fn run_matcher<F: MockFn>(
    matching_fn: &dyn Fn(&mut crate::private::Matching<F>),
    inputs: &F::Inputs<'_>,
    diagnostics: bool,
) -> (bool, u32, u32) {
    let mut builder = crate::private::Matching::<F>::new();
    matching_fn(&mut builder);
    let f = match builder.matching_fn {
        Some(f) => f,
        None => return (false, u32::MAX, u32::MAX),
    };
    #[cfg(kani)]
    let mut reporter = crate::private::MismatchReporter::kani_with_capacity(diagnostics);
    #[cfg(not(kani))]
    let mut reporter = if diagnostics {
        crate::private::MismatchReporter::new_enabled()
    } else {
        crate::private::MismatchReporter::new_disabled()
    };
    let accepted = (f.0)(inputs, &mut reporter);
    let mut mask = 0u32;
    let mut n = 0u32;
    for (crate::call_pattern::InputIndex(i), _) in reporter.mismatches.iter() {
        mask |= 1u32 << (*i as u32);
        n += 1;
    }
    core::mem::forget(reporter);
    (accepted, mask, n)
}

/// The pattern source text and location a `matching!` invocation registers (C19).
pub fn matcher_debug<F: MockFn>(
    matching_fn: &dyn Fn(&mut crate::private::Matching<F>),
) -> Option<(&'static str, &'static str, u32)> {
    let mut builder = crate::private::Matching::<F>::new();
    matching_fn(&mut builder);
    builder.matcher_debug.map(|d| (d.pat_debug, d.file, d.line))
}

/// Payload of `Continuation::Answer` for scripted evaluators (the field is crate-private).
pub fn answer_closure<F: MockFn>(f: &'static F::AnswerFn) -> crate::private::AnswerClosure<F> {
    crate::private::AnswerClosure(crate::private::AnswerClosureInner::Ref(f))
}

/// Identity of the shared state an instance points at (C15/C16: "evaluated by the same mock").
pub fn state_id(u: &Unimock) -> usize {
    crate::alloc::Arc::as_ptr(&u.shared_state) as *const () as usize
}

/// Is this the original instance? (C15)
pub fn is_original(u: &Unimock) -> bool {
    u.original_instance
}

pub fn type_id_of(info: &MockFnInfo) -> core::any::TypeId {
    info.type_id
}

pub fn info_flags(info: &MockFnInfo) -> (bool, bool) {
    (info.has_default_impl, info.partial_by_default)
}
