//! Verification overlay (never committed to the repository): helpers shared by the
//! in-file Kani harness modules and the external harness crate. Compiled only under
//! `cfg(kani)` / `cfg(unimock_verif)`.
#![allow(dead_code, missing_docs)]

use crate::alloc::String;

/// Replacement body for `alloc::fmt::format` in Kani harnesses: message text is outside
/// every Kani claim.
pub fn fmt_format_stub(_args: core::fmt::Arguments<'_>) -> String {
    String::new()
}

use crate::{MockFn, MockFnInfo, Unimock};

/// The concrete instantiation of the generic runtime used by the in-file harnesses.
pub struct TestFn;
impl MockFn for TestFn {
    type Inputs<'i> = u8;
    type OutputKind = crate::output::Owning<u8>;
    type AnswerFn = dyn (Fn(&Unimock, u8) -> u8) + Send + Sync;
    fn info() -> MockFnInfo {
        MockFnInfo::new::<Self>().path(&["TestTrait", "f"])
    }
}

/// A second, distinct method.
pub struct TestFn2;
impl MockFn for TestFn2 {
    type Inputs<'i> = u16;
    type OutputKind = crate::output::Owning<u16>;
    type AnswerFn = dyn (Fn(&Unimock, u16) -> u16) + Send + Sync;
    fn info() -> MockFnInfo {
        MockFnInfo::new::<Self>().path(&["TestTrait", "g"])
    }
}

/// `use crate::verif::std_shim as std;` is prepended (under cfg(kani)) to state.rs / teardown.rs: a module-level
/// name shadows the extern prelude, so `std::thread::current().id()` / `std::thread::panicking()` resolve here.
/// Kani cannot compile the real `thread::current()` (ICE on the catch_unwind intrinsic via thread_local dtors).
/// Thread identity and the panicking flag become harness-controlled values; everything else is real std.
#[cfg(all(kani, feature = "std"))]
pub mod std_shim {
    pub use ::std::*;
    pub mod thread {
        use core::sync::atomic::{AtomicBool, AtomicU64, Ordering::SeqCst};
        pub static CURRENT: AtomicU64 = AtomicU64::new(1);
        pub static PANICKING: AtomicBool = AtomicBool::new(false);
        #[derive(Clone, Copy, PartialEq, Eq, Debug)]
        pub struct ThreadId(pub u64);
        pub struct Thread(u64);
        impl Thread {
            pub fn id(&self) -> ThreadId {
                ThreadId(self.0)
            }
        }
        pub fn current() -> Thread {
            Thread(CURRENT.load(SeqCst))
        }
        pub fn panicking() -> bool {
            PANICKING.load(SeqCst)
        }
    }
}
