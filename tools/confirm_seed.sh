#!/bin/bash
# usage: confirm_seed.sh <PROP> <k> : confirm a sub-agent's seeded change in a fresh scratch worktree and store it under seeded/
set -u
ID=$1; K=$2
SRC=${SEED_SRC:-/tmp/seed-out/$ID}
WT=/tmp/cs-$ID-$K${SEED_SUFFIX:-}
OUT=/verif/seeded/$ID-${SEED_OUTK:-$K}
export CARGO_NET_OFFLINE=true CARGO_TARGET_DIR=$WT/target
git -C /repo worktree add -q --detach $WT HEAD || exit 3
cd $WT
res=()
git apply --check $SRC/patch$K.diff || { echo "patch does not apply"; git -C /repo worktree remove --force $WT; exit 3; }
# 1. demo passes without the patch
cp $SRC/demo$K.rs tests/demo$K.rs
cargo test --offline ${SEED_FEATURES:-} --test demo$K >$WT/demo_clean.log 2>&1; r_clean=$?
# 2. with the patch: suite passes, demo fails
git apply $SRC/patch$K.diff
rm tests/demo$K.rs
cargo test --workspace --offline --no-fail-fast >$WT/suite.log 2>&1; r_suite=$?
passed=$(grep -h "^test result" $WT/suite.log | awk '{s+=$4} END{print s}')
failed=$(grep -h "^test result" $WT/suite.log | awk '{s+=$6} END{print s}')
cp $SRC/demo$K.rs tests/demo$K.rs
cargo test --offline ${SEED_FEATURES:-} --test demo$K >$WT/demo_patched.log 2>&1; r_patched=$?
echo "$ID-$K: demo_clean rc=$r_clean suite rc=$r_suite passed=$passed failed=$failed demo_patched rc=$r_patched"
if [ $r_clean -eq 0 ] && [ $r_suite -eq 0 ] && [ "$failed" = "0" ] && [ $r_patched -ne 0 ]; then
  mkdir -p $OUT
  cp $SRC/patch$K.diff $OUT/patch.diff
  cp $SRC/demo$K.rs $OUT/demo.rs
  cp $SRC/notes$K.md $OUT/notes.md
  python3 - <<PY
import json
json.dump({"property":"$ID","seed":"$ID-$K","source":"independent sub-agent given only the property text and a scratch worktree",
 "needs_to_manifest": open("$SRC/notes$K.md").read()[:1500],
 "confirmed":{"demo_on_clean_tree":"pass (rc=$r_clean)","suite_with_patch":"pass: $passed passed, $failed failed (cargo test --workspace --offline --no-fail-fast)","demo_with_patch":"FAIL (rc=$r_patched)"},
 "commands":["git worktree add --detach $WT HEAD","cp demo.rs tests/demo$K.rs; cargo test --offline ${SEED_FEATURES:-} --test demo$K","git apply patch.diff; cargo test --workspace --offline --no-fail-fast","cargo test --offline ${SEED_FEATURES:-} --test demo$K"],
 "detected_by": None}, open("$OUT/meta.json","w"), indent=1)
PY
  echo CONFIRMED
else
  echo NOT-CONFIRMED; tail -5 $WT/demo_clean.log $WT/suite.log $WT/demo_patched.log
fi
cd /; git -C /repo worktree remove --force $WT
