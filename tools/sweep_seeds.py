#!/usr/bin/env python3
"""Apply every seeded change to /repo in turn, run the quick check of the property it breaks, undo it, and record the
outcome in seeded/<id>/meta.json and seeded/RESULTS.json. (/repo must be clean; nothing else may run meanwhile.)"""
import json, os, subprocess, sys, time
HERE = os.path.dirname(os.path.dirname(os.path.abspath(__file__)))
tier = sys.argv[1] if len(sys.argv) > 1 else "quick"
only = sys.argv[2:] 
assert subprocess.run(["git", "-C", "/repo", "status", "--porcelain"], stdout=subprocess.PIPE, text=True).stdout.strip() == "", "/repo not clean"
res = {}
rp = os.path.join(HERE, "seeded", "RESULTS.json")
if os.path.exists(rp):
    res = json.load(open(rp))
for d in sorted(os.listdir(os.path.join(HERE, "seeded"))):
    p = os.path.join(HERE, "seeded", d)
    if not os.path.isdir(p) or (only and d not in only):
        continue
    meta = json.load(open(os.path.join(p, "meta.json")))
    prop = meta["property"]
    a = subprocess.run(["git", "-C", "/repo", "apply", os.path.join(p, "patch.diff")])
    if a.returncode != 0:
        res[d] = {"error": "patch does not apply"}
        continue
    t = time.time()
    try:
        r = subprocess.run([os.path.join(HERE, "bin", "check"), prop, "--tier", tier], cwd=HERE, stdout=subprocess.PIPE, stderr=subprocess.DEVNULL, text=True)
    finally:
        subprocess.run(["git", "-C", "/repo", "checkout", "--", "."])
    lines = [l for l in r.stdout.splitlines() if l.startswith(("VIOLATION", "INCONCLUSIVE", "KNOWN")) or "[failed" in l]
    units = sorted({l.split()[3] for l in r.stdout.splitlines() if "[failed" in l and len(l.split()) > 3})
    res[d] = {"property": prop, "tier": tier, "exit": r.returncode, "failed_units": units, "violation": any(l.startswith("VIOLATION") for l in lines), "wall_s": round(time.time() - t)}
    meta["detected_by"] = {"check": f"bin/check {prop} --tier {tier}", "exit": r.returncode, "units": units,
                           "verdict": "VIOLATION (reproduced natively)" if r.returncode == 1 else ("inconclusive (solver counterexample or stale harness, no native reproduction)" if r.returncode == 2 else "missed")}
    json.dump(meta, open(os.path.join(p, "meta.json"), "w"), indent=1)
    json.dump(res, open(rp, "w"), indent=1)
    print(d, res[d], flush=True)
print("detected:", sum(1 for v in res.values() if v.get("exit") == 1), "inconclusive:", sum(1 for v in res.values() if v.get("exit") == 2), "missed:", sum(1 for v in res.values() if v.get("exit") == 0), "of", len(res))
