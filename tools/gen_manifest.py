#!/usr/bin/env python3
"""Regenerate MANIFEST.json from lib/uv/propdefs.py (claimed properties) and properties.jsonl."""
import json, os, sys
HERE = os.path.dirname(os.path.dirname(os.path.abspath(__file__)))
sys.path.insert(0, os.path.join(HERE, "lib"))
from uv import propdefs, harnesses
_allh = harnesses.infile_harnesses() + harnesses.ext_harnesses()


def kani_serves(pid):
    return bool(harnesses.select(_allh, pid, "thorough"))

ids = [json.loads(l)["id"] for l in open(os.path.join(HERE, "properties.jsonl"))]
checks, na = [], []
for pid in ids:
    pd = propdefs.PROPS.get(pid)
    if not pd or pd.get("not_applicable"):
        na.append({"property_id": pid, "reason": (pd or {}).get("not_applicable", "check not built yet in this round; see DESIGN.md section 4 for the plan")})
        continue
    checks.append({
        "property_id": pid,
        "quick_cmd": f"bin/check {pid} --tier quick",
        "thorough_cmd": f"bin/check {pid} --tier thorough",
        "evidence_file": f"evidence/{pid}.json",
        "replay_cmd_template": "bin/check " + pid + " --replay {path}",
        "engine": pd.get("engine") or "+".join(([ "kani"] if kani_serves(pid) else []) + (["mirsym"] if pd.get("mirsym") else [])),
        "level_claimed": {
            "category": "model_checking",
            "text": pd.get("level_text", "Bounded symbolic checking of the real code: every obligation is decided by a SAT/SMT solver for all values within the stated bounds; counterexamples are replayed natively before being reported."),
            "design_ref": f"DESIGN.md section 4, {pid}",
        },
        "level_note": "; ".join(pd.get("assumptions", [])[:6]) + " | outside the claim: " + "; ".join(pd.get("outside", [])),
        "technique": pd.get("technique", "solver-based bounded checking of the real code (Kani/CBMC harnesses over kani::any inputs; MIR symbolic execution decided by z3)"),
    })
m = {
    "version": 1,
    "setup_cmd": "bin/setup",
    "hooks": {
        "guard": "cfg(kani) / cfg(unimock_verif) — overlay only, nothing committed to /repo",
        "enable": "bin/check copies /repo's working tree to a scratch directory and applies the append/prepend-only overlay in /verif/overlay there; Kani sets cfg(kani)",
        "baseline_off_cmd": "cd /repo && cargo test --workspace --no-fail-fast --offline",
        "source_commits": [],
        "add_only": True,
    },
    "engines": [
        {"name": "kani", "path": "lib/uv/kani.py", "serves_properties": [c["property_id"] for c in checks if kani_serves(c["property_id"])], "kind_free_text": "Kani 0.68 / CBMC 6.11 bounded model checking of in-file and external harnesses over the compiled crate"},
        {"name": "mirsym", "path": "lib/uv/mirsym", "serves_properties": [p for p in ids if propdefs.PROPS.get(p, {}).get("mirsym")], "kind_free_text": "symbolic execution of rustc MIR (regenerated from /repo each run) with z3; cvc5 cross-check in thorough tier"},
    ],
    "checks": checks,
    "not_applicable": na,
    "notes": "Exit codes: 0 held within bounds; 1 VIOLATION (after native replay); 2 inconclusive (timeout, OOM, stale harness, unknown callee, non-reproducing model).",
}
json.dump(m, open(os.path.join(HERE, "MANIFEST.json"), "w"), indent=1)
print("claimed:", [c["property_id"] for c in checks], "n/a:", len(na))
