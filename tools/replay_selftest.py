#!/usr/bin/env python3
"""Run the native replay batteries against the current /repo: every scenario must agree with the property oracle
(otherwise the replay oracle itself would raise false alarms)."""
import sys, os, json
sys.path.insert(0, os.path.join(os.path.dirname(os.path.dirname(os.path.abspath(__file__))), "lib"))
from uv import scratch, replay
root = scratch.scratch_root()
bad = 0
try:
    for profile in ("dev", "release"):
        b, err = replay.build(root, profile)
        assert b, err
        n = 0
        for sc in replay.lifecycle_neighbourhood({"who": "original", "action": "drop"}):
            exp = replay.expected_lifecycle(sc)
            if exp is None:
                continue
            obs = replay.run_scenario(b, "lifecycle", sc)
            n += 1
            ok = replay.matches(obs, exp)
            if not ok:
                bad += 1
                print("MISMATCH", profile, json.dumps(sc), exp, obs)
        print(profile, n, "scenarios")
    from uv import replay_more
    for name, bats in replay_more.BATTERIES.items():
        ok, detail, ran = replay_more.run_batteries(root, bats)
        print(name, "battery:", ran, "runs; mismatches:", ok)
        if ok:
            bad += 1
            print(detail)
    for gname, gen in replay_more.GENERATORS.items():
        ok, detail, ran = replay_more.replay_generated(root, gen([]))
        print(gname, "generated battery:", ran, "runs; mismatches:", ok)
        if ok or ok is None or "were dropped" in detail:
            bad += 1
            print(detail)
finally:
    scratch.cleanup(root)
print("bad", bad)
sys.exit(1 if bad else 0)
