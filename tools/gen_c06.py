#!/usr/bin/env python3
"""Generate harness_ext/src/c06.rs: one Kani harness per member of the pattern family G6 (the stated bound of C06).
Each harness compares the closure `matching!` generates — diagnostics off AND on — with an independently written
Rust `match` over the same (symbolic) arguments; for guard-free single-alternative patterns it also compares the set of
reported argument positions with the set of positions whose sub-pattern rejects the value (C19)."""
import os, textwrap

HERE = os.path.dirname(os.path.dirname(os.path.abspath(__file__)))

# argument kinds: (rust type in the trait, code that binds a symbolic value `NAME`, expression passed in the inputs tuple)
def arg_u8(n): return ("u8", f"let {n}: u8 = kani::any();", n)
def arg_i32(n): return ("i32", f"let {n}: i32 = kani::any();", n)
def arg_opt(n): return ("Option<u8>", f"let {n}: Option<u8> = kani::any();", n)
def arg_str(n):
    return ("&str", f'let {n}: &str = match kani::any::<u8>() % 4 {{ 0 => "", 1 => "a", 2 => "ab", _ => "b" }};', n)
def arg_string(n):
    # one allocation per branch (never an allocation of symbolic size, DESIGN section 1)
    return ("String", f'let {n}: String = match kani::any::<u8>() % 4 {{ 0 => String::new(), 1 => String::from("a"), 2 => String::from("ab"), _ => String::from("b") }};', n)
def arg_slice(n):
    return ("&[u8]", f"let {n}_arr: [u8; 3] = kani::any(); let {n}_len: usize = kani::any(); kani::assume({n}_len <= 3); let {n}: &[u8] = &{n}_arr[..{n}_len];", n)
def arg_pt(n): return ("Pt", f"let {n} = Pt {{ x: kani::any(), y: kani::any() }};", n)
def arg_en(n):
    return ("En", f"let {n} = match kani::any::<u8>() % 3 {{ 0 => En::A(kani::any()), 1 => En::B, _ => En::C {{ x: kani::any() }} }};", n)
def arg_name(n):
    return ("Name", f'let {n} = Name(match kani::any::<u8>() % 3 {{ 0 => "", 1 => "ab", _ => "b" }});', n)

# family: name, tier, args, matching! source, reference (bool expr over the arg names, by reference), per-position
# sub-patterns for the mask check (None = not guard-free single-alternative), unwind
F = []
def fam(name, tier, args, pat, ref, subs=None, unwind=6, pre=()):
    F.append(dict(name=name, tier=tier, args=args, pat=pat, ref=ref, subs=subs, unwind=unwind, pre=list(pre)))

fam("lits_ranges_or", "quick", [arg_u8("a"), arg_u8("b"), arg_u8("c")], "1..=5, _, 7 | 9",
    "matches!((a, b, c), (1..=5, _, 7 | 9))", ["1..=5", "_", "7 | 9"])
fam("empty", "quick", [], "", "true", [])
fam("wild_and_binding", "quick", [arg_u8("a"), arg_i32("b")], "_, x", "true", ["_", "x"])
fam("guard_over_bindings", "quick", [arg_u8("a"), arg_u8("b")], "(x, y) if x < y", "a < b")
fam("two_alternatives", "quick", [arg_u8("a"), arg_u8("b")], "(1, 2) | (3, 4)", "matches!((a, b), (1, 2) | (3, 4))")
fam("alternatives_with_guard", "quick", [arg_u8("a"), arg_u8("b")], "(x, 1) | (x, 2) if *x >= 10",
    "match (a, b) { (x, 1) | (x, 2) if x >= 10 => true, _ => false }")
fam("eq_ne", "quick", [arg_i32("a"), arg_u8("b")], "eq!(&7), ne!(&3)", "a == 7 && b != 3")
fam("eq_in_alternatives", "quick", [arg_u8("a"), arg_u8("b")], "(_, eq!(&7)) | (eq!(&9), _)", "b == 7 || a == 9")
fam("guard_or_with_eq", "quick", [arg_u8("a"), arg_u8("b")], "(x, eq!(&7)) if *x == 1 || *x == 2",
    "match (a, b) { (x, y) if (x == 1 || x == 2) && y == 7 => true, _ => false }")
fam("option_pats", "quick", [arg_opt("a"), arg_opt("b")], "Some(1..=3), None",
    "matches!((a, b), (Some(1..=3), None))", ["Some(1..=3)", "None"])
fam("slice_rest", "quick", [arg_slice("a")], "[1, .., 9]", "matches!(a, [1, .., 9])", ["[1, .., 9]"])
fam("slice_pair_guard", "quick", [arg_slice("a"), arg_u8("b")], "([x, y], z) if x < y || *z == 0",
    "match (a, b) { ([x, y], z) if x < y || z == 0 => true, _ => false }")
fam("str_literals", "quick", [arg_str("a"), arg_u8("b")], '"ab" | "b", _', 'matches!((a, b), ("ab" | "b", _))', ['"ab" | "b"', "_"])
fam("string_slice_mix", "quick", [arg_string("a"), arg_i32("b"), arg_slice("c")], '("ab" | "b", _, [1, ..]) | (_, 42, [])',
    'matches!((a.as_str(), b, c), ("ab" | "b", _, [1, ..]) | (_, 42, []))')
fam("struct_enum", "quick", [arg_pt("a"), arg_en("b")], "Pt { x: 0, .. }, En::A(_) | En::B",
    "matches!((&a, &b), (Pt { x: 0, .. }, En::A(_) | En::B))", ["Pt { x: 0, .. }", "En::A(_) | En::B"])
fam("at_binding_guard", "quick", [arg_u8("a")], "(n @ 1..=9) if *n % 2 == 0", "match a { n @ 1..=9 if n % 2 == 0 => true, _ => false }")
# a guard on a method without inputs (the guard reads state from outside), and bare identifiers that are NOT bindings
# (`None`, an imported unit variant, a constant)
fam("zero_arity_guard", "quick", [], "() if OPEN.load(core::sync::atomic::Ordering::SeqCst)", "open",
    pre=["let open: bool = kani::any();", "OPEN.store(open, core::sync::atomic::Ordering::SeqCst);"])
fam("bare_ident_paths", "quick", [arg_opt("a"), arg_en("b")], "None, B", "matches!((a, &b), (None, En::B))", ["None", "En::B"])
# a user binding that is called like a macro-generated local (hygiene), eq! between different types whose two PartialEq
# directions differ (the comparison is `argument == operand`), an or-pattern of struct patterns that render alike
fam("binding_named_like_a_generated_local", "quick", [arg_u8("a"), arg_u8("b")], "(l0, eq!(&5)) if *l0 > 3", "a > 3 && b == 5")
fam("eq_across_types", "quick", [("Ver", "let a = Ver(kani::any());", "a"), arg_u8("b")], "eq!(&AtLeast(3)), _", "a.0 >= 3")
fam("struct_or_pattern", "quick", [arg_pt("a")], "Pt { x: 0, .. } | Pt { y: 0, .. }", "matches!(&a, Pt { x: 0, .. } | Pt { y: 0, .. })", ["Pt { x: 0, .. } | Pt { y: 0, .. }"])
fam("at_binding", "thorough", [arg_u8("a")], "n @ 1..=9", "matches!(a, 1..=9)", ["n @ 1..=9"])
fam("newtype_str", "thorough", [arg_name("a")], '"ab"', 'a.0 == "ab"', ['"ab"'])
fam("enum_struct_variant", "thorough", [arg_en("a"), arg_u8("b")], "En::C { x: 3..=4 }, 0", "matches!((&a, b), (En::C { x: 3..=4 }, 0))", ["En::C { x: 3..=4 }", "0"])
fam("nested_tuple_in_option", "thorough", [arg_opt("a"), arg_slice("b")], "Some(0) | None, [.., 5]", "matches!((a, b), (Some(0) | None, [.., 5]))", ["Some(0) | None", "[.., 5]"])
fam("ne_only", "thorough", [arg_u8("a"), arg_u8("b"), arg_u8("c")], "ne!(&1), _, ne!(&3)", "a != 1 && c != 3")
fam("five_args", "thorough", [arg_u8("a"), arg_u8("b"), arg_u8("c"), arg_u8("d"), arg_u8("e")], "1, 2..=3, _, 4 | 5, x",
    "matches!((a, b, c, d, e), (1, 2..=3, _, 4 | 5, _))", ["1", "2..=3", "_", "4 | 5", "x"])

HEAD = '''//! GENERATED by /verif/tools/gen_c06.py — do not edit. Pattern family G6 for C06 (and the position masks of C19).
use umk::*;

#[derive(Debug, Clone, PartialEq)]
pub struct Pt {
    pub x: u8,
    pub y: u8,
}
#[derive(Debug, Clone, PartialEq)]
pub enum En {
    A(u8),
    B,
    C { x: u8 },
}
#[allow(unused_imports)]
use self::En::B;
pub static OPEN: core::sync::atomic::AtomicBool = core::sync::atomic::AtomicBool::new(false);
#[derive(Debug, Clone)]
pub struct Ver(pub u8);
#[derive(Debug, Clone)]
pub struct AtLeast(pub u8);
impl PartialEq<AtLeast> for Ver {
    fn eq(&self, other: &AtLeast) -> bool {
        self.0 >= other.0
    }
}
impl PartialEq<Ver> for AtLeast {
    fn eq(&self, other: &Ver) -> bool {
        self.0 == other.0
    }
}
#[derive(Debug, Clone, PartialEq)]
pub struct Name(pub &'static str);
impl AsRef<str> for Name {
    fn as_ref(&self) -> &str {
        self.0
    }
}
fn fmt_stub(_args: core::fmt::Arguments<'_>) -> String {
    String::new()
}
// helper used by one reference match to mirror a guard that applies to every alternative
fn true_or(_a: &[u8], _b: u8) -> bool {
    true
}
'''


def emit(e):
    n = e["name"]
    args = e["args"]
    sig = ", ".join(f"p{i}: {a[0]}" for i, a in enumerate(args))
    trait = f"#[unimock(api = M_{n})]\npub trait T_{n} {{\n    fn f(&self{', ' if sig else ''}{sig});\n}}\n"
    binds = "\n        ".join(list(e.get("pre", [])) + [a[1] for a in args])
    names = [a[2] for a in args]
    if len(names) == 0:
        inputs = "()"
    elif len(names) == 1:
        inputs = names[0]
    else:
        inputs = "(" + ", ".join(names) + ")"
    ref = e["ref"]
    # NB: the reference (and the rejecting-position mask) are computed BEFORE the arguments are moved into the inputs
    # tuple: cloning a String of symbolic length is an allocation of symbolic size, which produced a spurious Kani
    # counterexample (DESIGN section 1).
    body = [f"let reference: bool = {ref};"]
    if e["subs"] is not None:
        want = " | ".join(f"((!matches!({'&' + x if a[0] in ('Pt', 'En', 'Ver') else (x + '.0' if a[0] == 'Name' else x)}, {sp})) as u32) << {i}" for i, (x, a, sp) in enumerate(zip(names, args, e["subs"]))) or "0"
        body += [f"let rejecting: u32 = {want};"]
    body += [f"let inputs = {inputs};",
            f"let m: &dyn Fn(&mut umk::private::Matching<M_{n}::f>) = matching!({e['pat']});",
            f"let (acc_off, mask_off, n_off) = umk::verif::run_matcher::<M_{n}::f>(m, &inputs, false);",
            f"let (acc_on, mask_on, n_on) = umk::verif::run_matcher::<M_{n}::f>(m, &inputs, true);",
            "assert!(acc_off == reference, \"diagnostics off: accept iff the Rust match selects an arm\");",
            "assert!(acc_on == reference, \"diagnostics on: same decision\");",
            "assert!(n_off == 0, \"nothing is reported when diagnostics are off\");"]
    if e["subs"] is not None:
        body += ["assert!(mask_on == if reference { 0 } else { rejecting }, \"C19: exactly the rejecting positions are reported\");"]
    body += ["kani::cover!(reference, \"accepting inputs exist\");", "kani::cover!(!reference, \"rejecting inputs exist\");" if n not in ("empty", "wild_and_binding") else "kani::cover!(acc_on);",
             "core::mem::forget(inputs);"]
    fns = ",".join(["matching!", "render_success_arm", "render_guard", "generate_diagnostics_arm", "Matching::func", "MismatchReporter::pat_fail"])
    props = "C06,C19" if e["subs"] is not None else "C06"
    if n in ("alternatives_with_guard", "guard_over_bindings", "zero_arity_guard"):
        props += ",C01"      # C01's "a pattern accepts" is this predicate: guards are part of it
    ann = f'    //@ props={props} tier={e["tier"]} fns={fns} inst="matching!({e["pat"]}) over ({", ".join(a[0] for a in args)})" bounds="all argument values (integers full range; strings from a 3-4 literal pool; slices of length <= 3); diagnostics off and on"'
    h = f'''{trait}
{ann}
#[kani::proof]
#[kani::unwind({e["unwind"]})]
#[kani::stub(std::fmt::format, fmt_stub)]
fn c06_{n}() {{
        {binds}
        {(chr(10) + "        ").join(body)}
}}
'''
    return h


out = [HEAD]
for e in F:
    out.append(emit(e))
open(os.path.join(HERE, "harness_ext", "src", "c06.rs"), "w").write("\n".join(out))
print("wrote", len(F), "harnesses")
