#!/bin/bash
# run every quick (or $1) check on the current tree; evidence files are rewritten; summary on stdout
T=${1:-quick}
cd "$(dirname "$0")/.."
for p in C01 C02 C03 C04 C05 C06 C07 C08 C09 C10 C11 C12 C13 C14 C15 C16 C17 C18 C19 C20; do
  bin/check $p --tier $T 2>/dev/null | tail -1
done
