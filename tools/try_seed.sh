#!/bin/bash
# usage: try_seed.sh <seed-dir-name> <PROP> [tier]   : apply seeded patch to /repo, run check, revert
S=$1; P=$2; T=${3:-quick}
cd /verif
git -C /repo apply /verif/seeded/$S/patch.diff || exit 3
bin/check $P --tier $T > /tmp/try-$S-$P.log 2>&1; rc=$?
git -C /repo checkout -- . 
echo "== $S on $P: exit $rc"; grep -E "VIOLATION|INCONCLUSIVE|KNOWN|^\s+\[(failed|error|vacuous)" /tmp/try-$S-$P.log | cut -c1-300
