//! C19 (ii): generated debug_inputs — argument order, and None ('?') for types without Debug.
use umk::*;

fn fmt_stub(_args: core::fmt::Arguments<'_>) -> String {
    String::new()
}
#[derive(Debug)]
pub struct Dbg(pub u8);
pub struct NoDbg(pub u8);

#[unimock(api = MD)]
pub trait TDbg {
    fn three(&self, a: Dbg, b: NoDbg, c: &Dbg);
    fn refs(&self, a: &NoDbg, b: &&u8, c: &[u8], d: &mut u16);
    fn none(&self);
    fn one_nodebug(&self, a: NoDbg);
}

//@ props=C19 tier=quick fns=generate_debug_inputs_fn,try_debug_expr,ProperDebug,NoDebug inst="fn three(&self, a: Dbg, b: NoDbg, c: &Dbg) ; fn refs(&self, a: &NoDbg, b: &&u8, c: &[u8], d: &mut u16) ; fn none(&self) ; fn one_nodebug(&self, a: NoDbg)" bounds="all payload values; rendered text outside (formatting stubbed)"
/// One entry per argument, in declaration order; Some(rendering) for Debug types (through any depth of references,
/// slices, &mut), None for types without Debug.
#[kani::proof]
#[kani::unwind(6)]
#[kani::stub(std::fmt::format, fmt_stub)]
fn c19_debug_inputs_shape() {
    let c = Dbg(kani::any());
    let d3 = <MD::three as MockFn>::debug_inputs(&(Dbg(kani::any()), NoDbg(kani::any()), &c));
    assert!(d3.len() == 3);
    assert!(d3[0].is_some() && d3[1].is_none() && d3[2].is_some(), "'?' exactly for the non-Debug argument, at its own position");
    let nd = NoDbg(kani::any());
    let x: u8 = kani::any();
    let rx = &x;
    let arr: [u8; 2] = kani::any();
    let mut m: u16 = kani::any();
    let d4 = <MD::refs as MockFn>::debug_inputs(&(&nd, &rx, &arr[..], &mut m));
    assert!(d4.len() == 4);
    assert!(d4[0].is_none() && d4[1].is_some() && d4[2].is_some() && d4[3].is_some());
    let d0 = <MD::none as MockFn>::debug_inputs(&());
    assert!(d0.len() == 0);
    let d1 = <MD::one_nodebug as MockFn>::debug_inputs(&NoDbg(kani::any()));
    assert!(d1.len() == 1 && d1[0].is_none());
    kani::cover!(x == 3);
    core::mem::forget(d3);
    core::mem::forget(d4);
    core::mem::forget(d1);
}

#[unimock(api = ML)]
pub trait TLoc {
    fn f(&self, a: u8, b: u8);
}
//@ props=C19 tier=quick fns=generate_pat_debug,Matching::pat_debug inst="matching!(1 | 2, _) ; matching!((a, b) if a < b) ; matching!()" bounds="the registered pattern text and location of three matching! invocations"
/// A pattern is named by its source text and the file:line of its matching! invocation.
#[kani::proof]
#[kani::unwind(6)]
fn c19_pattern_source_text_and_location() {
    let m: &dyn Fn(&mut umk::private::Matching<ML::f>) = matching!(1 | 2, _);
    let line1 = line!() - 1;
    let d = umk::verif::matcher_debug::<ML::f>(m).unwrap();
    assert!(d.0.len() == "(1 | 2, _)".len() && d.0.as_bytes()[1] == b'1' && d.0.as_bytes()[8] == b'_');
    assert!(d.2 == line1 && d.1.len() == file!().len());
    let m2: &dyn Fn(&mut umk::private::Matching<ML::f>) = matching!((a, b) if a < b);
    let line2 = line!() - 1;
    let d2 = umk::verif::matcher_debug::<ML::f>(m2).unwrap();
    assert!(d2.2 == line2 && d2.0.as_bytes()[0] == b'(');
    // an invocation whose patterns are wrapped over several lines is located at the line of `matching!` itself
    let line3 = line!() + 1;
    let m3: &dyn Fn(&mut umk::private::Matching<ML::f>) = matching!(
        1 | 2,
        _
    );
    let d3 = umk::verif::matcher_debug::<ML::f>(m3).unwrap();
    assert!(d3.2 == line3, "location = line of the matching! invocation");
    kani::cover!(d.2 < d2.2, "two invocations, two locations");
}
