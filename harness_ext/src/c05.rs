//! C05: generated impls forward arguments, receiver and result unchanged (scripted evaluator instead of the runtime).
use core::any::Any;
use core::sync::atomic::{AtomicU16, AtomicU32, AtomicU8, AtomicUsize, Ordering::SeqCst};
use umk::private::{Continuation, Eval};
use umk::*;

fn fmt_stub(_args: core::fmt::Arguments<'_>) -> String {
    String::new()
}

/// Hand the harness' typed answer function to the generated code as `Continuation::Answer`, inputs untouched.
fn answer_with<'u, 'i, F: MockFn + 'static, A: ?Sized + 'static>(f: &'static A, inputs: F::Inputs<'i>) -> Eval<'u, 'i, F> {
    let any: &dyn Any = &f;
    match any.downcast_ref::<&'static F::AnswerFn>() {
        Some(g) => Eval::Continue(Continuation::Answer(umk::verif::answer_closure::<F>(*g)), inputs),
        None => panic!("evaluated another MockFn than the harness expects"),
    }
}

// ------------------------------------------------------------------------------------------- shape 1
#[unimock(api = M1)]
pub trait T1 {
    fn f(&self, a: u8, b: &mut u16, c: &str) -> u32;
}
static E1: AtomicUsize = AtomicUsize::new(0);
static S1A: AtomicU8 = AtomicU8::new(0);
static S1B: AtomicU16 = AtomicU16::new(0);
static S1C: AtomicUsize = AtomicUsize::new(0);
static S1U: AtomicUsize = AtomicUsize::new(0);
fn eval1<'u, 'i, F: MockFn + 'static>(u: &'u Unimock, inputs: F::Inputs<'i>) -> Eval<'u, 'i, F> {
    E1.fetch_add(1, SeqCst);
    let f: &'static <M1::f as MockFn>::AnswerFn = &|u, a, b, c| {
        S1U.store(umk::verif::state_id(u), SeqCst);
        S1A.store(a, SeqCst);
        S1B.store(*b, SeqCst);
        S1C.store(c.as_ptr() as usize ^ c.len(), SeqCst);
        *b = b.wrapping_add(3);
        ((a as u32) << 16) | 0xBEEF
    };
    answer_with::<F, _>(f, inputs)
}

//@ props=C05 tier=quick fns=def_method_impl,InputsDestructuring,InputTypesTuple,make_answer_fn inst="fn f(&self, a: u8, b: &mut u16, c: &str) -> u32" bounds="all (a, b) values; c one of 3 literals; one call"
#[kani::proof]
#[kani::unwind(4)]
#[kani::stub(crate::umk::private::eval, eval1)]
#[kani::stub(std::fmt::format, fmt_stub)]
fn c05_ref_self_owned_mutref_str() {
    let a: u8 = kani::any();
    let b0: u16 = kani::any();
    let c: &str = match kani::any::<u8>() % 3 {
        0 => "",
        1 => "ab",
        _ => "b",
    };
    let u = Unimock::new(());
    let mut b = b0;
    let r = <Unimock as T1>::f(&u, a, &mut b, c);
    assert!(E1.load(SeqCst) == 1, "exactly one evaluation per call");
    assert!(S1A.load(SeqCst) == a && S1B.load(SeqCst) == b0, "the answer saw the caller's arguments, in declaration order");
    assert!(S1C.load(SeqCst) == (c.as_ptr() as usize ^ c.len()), "borrowed argument forwarded as is");
    assert!(S1U.load(SeqCst) == umk::verif::state_id(&u), "the answer receives this mock");
    assert!(b == b0.wrapping_add(3), "mutation through &mut is visible to the caller");
    assert!(r == (((a as u32) << 16) | 0xBEEF), "the answer's result is returned unchanged");
    kani::cover!(a == 200 && b0 == 65535);
    core::mem::forget(u);
}

// ------------------------------------------------------------------------------------------- shape 2: &mut self, arity 0
#[unimock(api = M2)]
pub trait T2 {
    fn f(&mut self) -> u8;
}
static E2: AtomicUsize = AtomicUsize::new(0);
static V2: AtomicU8 = AtomicU8::new(0);
fn eval2<'u, 'i, F: MockFn + 'static>(u: &'u Unimock, inputs: F::Inputs<'i>) -> Eval<'u, 'i, F> {
    E2.fetch_add(1, SeqCst);
    let f: &'static (dyn (for<'a> Fn(&'a mut Unimock) -> u8) + Send + Sync) = &|_u| V2.load(SeqCst);
    answer_with::<F, _>(f, inputs)
}
//@ props=C05 tier=disabled fns=def_method_impl inst="fn f(&mut self) -> u8 (arity 0)" bounds="all result values; two calls"
#[kani::proof]
#[kani::unwind(4)]
#[kani::stub(crate::umk::private::eval, eval2)]
#[kani::stub(std::fmt::format, fmt_stub)]
fn c05_mut_self_arity0() {
    let v: u8 = kani::any();
    V2.store(v, SeqCst);
    let mut u = Unimock::new(());
    assert!(<Unimock as T2>::f(&mut u) == v);
    assert!(<Unimock as T2>::f(&mut u) == v);
    assert!(E2.load(SeqCst) == 2, "one evaluation per call");
    kani::cover!(v == 77);
    core::mem::forget(u);
}

// ------------------------------------------------------------------------------------------- shape 3: five parameters of mixed kinds
#[unimock(api = M3)]
pub trait T3 {
    fn f(&self, a: u8, b: u16, c: bool, d: &u8, e: &mut u8) -> u32;
}
static E3: AtomicUsize = AtomicUsize::new(0);
static S3: AtomicU32 = AtomicU32::new(0);
fn eval3<'u, 'i, F: MockFn + 'static>(u: &'u Unimock, inputs: F::Inputs<'i>) -> Eval<'u, 'i, F> {
    E3.fetch_add(1, SeqCst);
    let f: &'static <M3::f as MockFn>::AnswerFn = &|_u, a, b, c, d, e| {
        // position-sensitive digest of what was received
        let seen = (a as u32) | ((b as u32 & 0xff) << 8) | ((c as u32) << 16) | ((*d as u32 & 0x7f) << 17) | ((*e as u32 & 0x7f) << 24);
        S3.store(seen, SeqCst);
        *e = e.wrapping_mul(2);
        seen ^ 0x5a5a
    };
    answer_with::<F, _>(f, inputs)
}
//@ props=C05 tier=quick fns=def_method_impl,InputsDestructuring inst="fn f(&self, a: u8, b: u16, c: bool, d: &u8, e: &mut u8) -> u32 (arity 5)" bounds="all argument values (pairwise distinct values included); one call"
#[kani::proof]
#[kani::unwind(4)]
#[kani::stub(crate::umk::private::eval, eval3)]
#[kani::stub(std::fmt::format, fmt_stub)]
fn c05_five_params_in_order() {
    let (a, b, c, d, e0): (u8, u16, bool, u8, u8) = (kani::any(), kani::any(), kani::any(), kani::any(), kani::any());
    let u = Unimock::new(());
    let mut e = e0;
    let r = <Unimock as T3>::f(&u, a, b, c, &d, &mut e);
    let want = (a as u32) | ((b as u32 & 0xff) << 8) | ((c as u32) << 16) | ((d as u32 & 0x7f) << 17) | ((e0 as u32 & 0x7f) << 24);
    assert!(S3.load(SeqCst) == want, "every parameter arrives at its own position");
    assert!(r == want ^ 0x5a5a);
    assert!(e == e0.wrapping_mul(2));
    assert!(E3.load(SeqCst) == 1);
    kani::cover!(a != d && a != e0 && d != e0 && b as u8 != a);
    core::mem::forget(u);
}

// ------------------------------------------------------------------------------------------- shape 4: exotic receivers
#[unimock(api = M4)]
pub trait T4 {
    fn rc(self: std::rc::Rc<Self>, x: u8) -> u8;
    fn pin(self: core::pin::Pin<&mut Self>, x: u8) -> u8;
}
static E4: AtomicUsize = AtomicUsize::new(0);
static S4: AtomicUsize = AtomicUsize::new(0);
fn eval4rc<'u, 'i, F: MockFn + 'static>(u: &'u Unimock, inputs: F::Inputs<'i>) -> Eval<'u, 'i, F> {
    E4.fetch_add(1, SeqCst);
    let f: &'static (dyn Fn(std::rc::Rc<Unimock>, u8) -> u8 + Send + Sync) = &|u, x| {
        S4.store(umk::verif::state_id(&u), SeqCst);
        core::mem::forget(u);
        x.wrapping_add(1)
    };
    answer_with::<F, _>(f, inputs)
}
fn eval4pin<'u, 'i, F: MockFn + 'static>(u: &'u Unimock, inputs: F::Inputs<'i>) -> Eval<'u, 'i, F> {
    E4.fetch_add(1, SeqCst);
    let f: &'static (dyn (for<'a> Fn(&'a mut Unimock, u8) -> u8) + Send + Sync) = &|u, x| {
        S4.store(umk::verif::state_id(u), SeqCst);
        x.wrapping_add(2)
    };
    answer_with::<F, _>(f, inputs)
}
//@ props=C05 tier=quick fns=def_method_impl inst="fn rc(self: Rc<Self>, x: u8) -> u8" bounds="all x; one call"
#[kani::proof]
#[kani::unwind(4)]
#[kani::stub(crate::umk::private::eval, eval4rc)]
#[kani::stub(std::fmt::format, fmt_stub)]
fn c05_rc_self() {
    let x: u8 = kani::any();
    let u = std::rc::Rc::new(Unimock::new(()));
    let id = umk::verif::state_id(&u);
    let keep = u.clone();
    let r = <Unimock as T4>::rc(u, x);
    assert!(r == x.wrapping_add(1) && E4.load(SeqCst) == 1);
    assert!(S4.load(SeqCst) == id, "the answer receives the caller's receiver");
    kani::cover!(x == 255);
    core::mem::forget(keep);
}
//@ props=C05 tier=disabled fns=def_method_impl inst="fn pin(self: Pin<&mut Self>, x: u8) -> u8" bounds="all x; one call"
#[kani::proof]
#[kani::unwind(4)]
#[kani::stub(crate::umk::private::eval, eval4pin)]
#[kani::stub(std::fmt::format, fmt_stub)]
fn c05_pin_mut_self() {
    let x: u8 = kani::any();
    let mut u = Unimock::new(());
    let id = umk::verif::state_id(&u);
    let r = <Unimock as T4>::pin(core::pin::Pin::new(&mut u), x);
    assert!(r == x.wrapping_add(2) && E4.load(SeqCst) == 1);
    assert!(S4.load(SeqCst) == id);
    kani::cover!(x == 0);
    core::mem::forget(u);
}

// ------------------------------------------------------------------------------------------- shape 5: trait-level generic
#[unimock(api = M5)]
pub trait T5<T: 'static> {
    fn g(&self, t: T, k: u8) -> T;
}
static E5: AtomicUsize = AtomicUsize::new(0);
fn eval5<'u, 'i, F: MockFn + 'static>(u: &'u Unimock, inputs: F::Inputs<'i>) -> Eval<'u, 'i, F> {
    E5.fetch_add(1, SeqCst);
    let f: &'static (dyn (for<'a> Fn(&'a Unimock, u16, u8) -> u16) + Send + Sync) = &|_u, t, k| t.wrapping_add(k as u16);
    answer_with::<F, _>(f, inputs)
}
//@ props=C05,C18 tier=quick fns=def_method_impl,generic MockFn inst="trait T5<T> { fn g(&self, t: T, k: u8) -> T } at T = u16" bounds="all (t, k); one call"
#[kani::proof]
#[kani::unwind(4)]
#[kani::stub(crate::umk::private::eval, eval5)]
#[kani::stub(std::fmt::format, fmt_stub)]
fn c05_trait_generic_u16() {
    let (t, k): (u16, u8) = (kani::any(), kani::any());
    let u = Unimock::new(());
    let r = <Unimock as T5<u16>>::g(&u, t, k);
    assert!(r == t.wrapping_add(k as u16) && E5.load(SeqCst) == 1);
    // generic instantiations are distinct methods (C18)
    kani::cover!(t == 1 && k == 2);
    core::mem::forget(u);
}

// ------------------------------------------------------------------------------------------- shape 6: async fn / RPIT future
#[unimock(api = M6)]
pub trait T6 {
    async fn a(&self, x: u8, y: &mut u8) -> u8;
    fn r(&self, x: u8) -> impl core::future::Future<Output = u8>;
}
static E6: AtomicUsize = AtomicUsize::new(0);
static A6: AtomicUsize = AtomicUsize::new(0);
fn eval6a<'u, 'i, F: MockFn + 'static>(u: &'u Unimock, inputs: F::Inputs<'i>) -> Eval<'u, 'i, F> {
    E6.fetch_add(1, SeqCst);
    let f: &'static <M6::a as MockFn>::AnswerFn = &|_u, x, y| {
        A6.fetch_add(1, SeqCst);
        *y = y.wrapping_add(1);
        x.wrapping_add(*y)
    };
    answer_with::<F, _>(f, inputs)
}
fn eval6r<'u, 'i, F: MockFn + 'static>(u: &'u Unimock, inputs: F::Inputs<'i>) -> Eval<'u, 'i, F> {
    E6.fetch_add(1, SeqCst);
    let f: &'static <M6::r as MockFn>::AnswerFn = &|_u, x| {
        A6.fetch_add(1, SeqCst);
        x ^ 0x0f
    };
    answer_with::<F, _>(f, inputs)
}
fn poll_once<Fut: core::future::Future>(fut: core::pin::Pin<&mut Fut>) -> core::task::Poll<Fut::Output> {
    let mut cx = core::task::Context::from_waker(core::task::Waker::noop());
    fut.poll(&mut cx)
}
//@ props=C05 tier=quick fns=def_method_impl(async) inst="async fn a(&self, x: u8, y: &mut u8) -> u8" bounds="all (x, y); awaited once / dropped unpolled"
/// An async method evaluates when its future is awaited, once per await, and not at all if dropped unpolled.
#[kani::proof]
#[kani::unwind(4)]
#[kani::stub(crate::umk::private::eval, eval6a)]
#[kani::stub(std::fmt::format, fmt_stub)]
fn c05_async_fn_lazy() {
    let (x, y0): (u8, u8) = (kani::any(), kani::any());
    let u = Unimock::new(());
    let mut y = y0;
    {
        let fut = <Unimock as T6>::a(&u, x, &mut y);
        assert!(E6.load(SeqCst) == 0 && A6.load(SeqCst) == 0, "nothing happens before the first poll");
        drop(fut);
    }
    assert!(E6.load(SeqCst) == 0 && A6.load(SeqCst) == 0 && y == y0, "dropped unpolled: not evaluated at all");
    {
        let mut fut = core::pin::pin!(<Unimock as T6>::a(&u, x, &mut y));
        match poll_once(fut.as_mut()) {
            core::task::Poll::Ready(r) => assert!(r == x.wrapping_add(y0.wrapping_add(1))),
            core::task::Poll::Pending => assert!(false, "the mock future is ready on its first poll"),
        }
    }
    assert!(E6.load(SeqCst) == 1 && A6.load(SeqCst) == 1, "once per await");
    assert!(y == y0.wrapping_add(1), "&mut effects are visible after the await");
    kani::cover!(x == 3 && y0 == 4);
    core::mem::forget(u);
}
//@ props=C05 tier=quick fns=def_method_impl(rpit future) inst="fn r(&self, x: u8) -> impl Future<Output = u8>" bounds="all x; two futures created, awaited in reverse order, one dropped unpolled"
#[kani::proof]
#[kani::unwind(4)]
#[kani::stub(crate::umk::private::eval, eval6r)]
#[kani::stub(std::fmt::format, fmt_stub)]
fn c05_rpit_future_lazy() {
    let x: u8 = kani::any();
    let u = Unimock::new(());
    let f1 = <Unimock as T6>::r(&u, x);
    let f2 = <Unimock as T6>::r(&u, x.wrapping_add(1));
    assert!(E6.load(SeqCst) == 0 && A6.load(SeqCst) == 0, "creating futures neither matches nor answers");
    drop(f1);
    assert!(E6.load(SeqCst) == 0 && A6.load(SeqCst) == 0, "a future dropped unpolled is not a call");
    {
        let mut f2 = core::pin::pin!(f2);
        match poll_once(f2.as_mut()) {
            core::task::Poll::Ready(r) => assert!(r == (x.wrapping_add(1) ^ 0x0f)),
            core::task::Poll::Pending => assert!(false),
        }
    }
    assert!(E6.load(SeqCst) == 1 && A6.load(SeqCst) == 1);
    kani::cover!(x == 255);
    core::mem::forget(u);
}

// ------------------------------------------------------------------------------------------- shape 7: flattened api, by-value self
#[unimock(api = [F7a, F7b])]
pub trait T7 {
    fn one(&self, x: u8) -> u8;
    fn two(self, x: u16) -> u16;
}
static E7: AtomicUsize = AtomicUsize::new(0);
fn eval7<'u, 'i, F: MockFn + 'static>(u: &'u Unimock, inputs: F::Inputs<'i>) -> Eval<'u, 'i, F> {
    E7.fetch_add(1, SeqCst);
    let f: &'static <F7a as MockFn>::AnswerFn = &|_u, x| x.wrapping_mul(3);
    answer_with::<F, _>(f, inputs)
}
fn eval7b<'u, 'i, F: MockFn + 'static>(u: &'u Unimock, inputs: F::Inputs<'i>) -> Eval<'u, 'i, F> {
    E7.fetch_add(1, SeqCst);
    let f: &'static (dyn Fn(Unimock, u16) -> u16 + Send + Sync) = &|u, x| {
        core::mem::forget(u);
        x.wrapping_sub(1)
    };
    answer_with::<F, _>(f, inputs)
}
//@ props=C05 tier=quick fns=def_method_impl,flattened api inst="#[unimock(api=[F7a, F7b])] fn one(&self, x: u8) -> u8" bounds="all x"
#[kani::proof]
#[kani::unwind(4)]
#[kani::stub(crate::umk::private::eval, eval7)]
#[kani::stub(std::fmt::format, fmt_stub)]
fn c05_flattened_api() {
    let x: u8 = kani::any();
    let u = Unimock::new(());
    assert!(<Unimock as T7>::one(&u, x) == x.wrapping_mul(3) && E7.load(SeqCst) == 1);
    kani::cover!(x == 100);
    core::mem::forget(u);
}
//@ props=C05 tier=disabled fns=def_method_impl inst="fn two(self, x: u16) -> u16 (by-value receiver)" bounds="all x"
#[kani::proof]
#[kani::unwind(4)]
#[kani::stub(crate::umk::private::eval, eval7b)]
#[kani::stub(std::fmt::format, fmt_stub)]
fn c05_by_value_self() {
    let x: u16 = kani::any();
    let u = Unimock::new(());
    assert!(<Unimock as T7>::two(u, x) == x.wrapping_sub(1) && E7.load(SeqCst) == 1);
    kani::cover!(x == 0);
}
