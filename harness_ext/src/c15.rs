//! C15 / C16: default-method delegation and unmocking — the generated continuation arms, driven by a scripted evaluator.
use core::any::{Any, TypeId};
use core::future::Future;
use core::sync::atomic::{AtomicU16, AtomicU32, AtomicU8, AtomicUsize, Ordering::SeqCst};
use umk::private::{Continuation, Eval};
use umk::*;

fn fmt_stub(_args: core::fmt::Arguments<'_>) -> String {
    String::new()
}
fn answer_with<'u, 'i, F: MockFn + 'static, A: ?Sized + 'static>(f: &'static A, inputs: F::Inputs<'i>) -> Eval<'u, 'i, F> {
    let any: &dyn Any = &f;
    match any.downcast_ref::<&'static F::AnswerFn>() {
        Some(g) => Eval::Continue(Continuation::Answer(umk::verif::answer_closure::<F>(*g)), inputs),
        None => panic!("evaluated another MockFn than the harness expects"),
    }
}

// ------------------------------------------------------------------------------------------- C15: &self provided method calling two required methods
#[unimock(api = D1)]
pub trait TD1 {
    fn req(&self, x: u8) -> u8;
    fn prov(&self, a: u8, b: u8) -> u16 {
        BODY.fetch_add(1, SeqCst);
        ((self.req(a) as u16) << 8) | self.req(b) as u16
    }
}
static BODY: AtomicUsize = AtomicUsize::new(0);
static EV: AtomicUsize = AtomicUsize::new(0);
static NESTED: AtomicUsize = AtomicUsize::new(0);
static STATE: AtomicUsize = AtomicUsize::new(0);
static STATE_OK: AtomicUsize = AtomicUsize::new(0);
fn eval_d1<'u, 'i, F: MockFn + 'static>(u: &'u Unimock, inputs: F::Inputs<'i>) -> Eval<'u, 'i, F> {
    // the FIRST evaluation is the provided method itself (a TypeId test here makes CBMC run out of memory, DESIGN section 1)
    if EV.fetch_add(1, SeqCst) == 0 {
        // no clause answers the provided method otherwise: run the trait's own body
        STATE.store(umk::verif::state_id(u), SeqCst);
        return Eval::Continue(Continuation::CallDefaultImpl, inputs);
    }
    NESTED.fetch_add(1, SeqCst);
    if umk::verif::state_id(u) == STATE.load(SeqCst) {
        STATE_OK.fetch_add(1, SeqCst);
    }
    let f: &'static <D1::req as MockFn>::AnswerFn = &|_u, x| x.wrapping_add(1);
    answer_with::<F, _>(f, inputs)
}
//@ props=C15 tier=quick fns=def_method_impl(CallDefaultImpl arm),DefaultImplDelegator,AsRef<DefaultImplDelegator>for-Unimock,Delegate0-impl inst="&self provided method whose body calls a required method twice" bounds="all (a, b); one call"
/// C15: the trait's real default body runs with the caller's arguments; each required-method call it makes on self is
/// evaluated by the SAME mock state; the result comes back unchanged.
#[kani::proof]
#[kani::unwind(4)]
#[kani::stub(crate::umk::private::eval, eval_d1)]
#[kani::stub(std::fmt::format, fmt_stub)]
fn c15_ref_self_two_nested_calls() {
    let (a, b): (u8, u8) = (kani::any(), kani::any());
    let u = Unimock::new(());
    let r = <Unimock as TD1>::prov(&u, a, b);
    assert!(BODY.load(SeqCst) == 1, "the default body ran exactly once");
    assert!(r == (((a.wrapping_add(1) as u16) << 8) | b.wrapping_add(1) as u16), "body computed over the caller's arguments, result unchanged");
    assert!(EV.load(SeqCst) == 3 && NESTED.load(SeqCst) == 2, "both required-method calls reached the mock");
    assert!(STATE_OK.load(SeqCst) == 2, "nested calls are evaluated by the same shared state");
    assert!(STATE.load(SeqCst) == umk::verif::state_id(&u));
    kani::cover!(a != b);
    core::mem::forget(u);
}

// ------------------------------------------------------------------------------------------- C15: Rc<Self> receiver, zero nested calls + one nested
#[unimock(api = D2)]
pub trait TD2 {
    fn req(self: std::rc::Rc<Self>, x: u8) -> u8;
    fn prov(self: std::rc::Rc<Self>, a: u8) -> u8 {
        BODY.fetch_add(1, SeqCst);
        self.req(a).wrapping_mul(2)
    }
}
fn eval_d2<'u, 'i, F: MockFn + 'static>(u: &'u Unimock, inputs: F::Inputs<'i>) -> Eval<'u, 'i, F> {
    if EV.fetch_add(1, SeqCst) == 0 {
        STATE.store(umk::verif::state_id(u), SeqCst);
        return Eval::Continue(Continuation::CallDefaultImpl, inputs);
    }
    if umk::verif::state_id(u) == STATE.load(SeqCst) {
        STATE_OK.fetch_add(1, SeqCst);
    }
    let f: &'static (dyn Fn(std::rc::Rc<Unimock>, u8) -> u8 + Send + Sync) = &|u, x| {
        core::mem::forget(u);
        x.wrapping_add(5)
    };
    answer_with::<F, _>(f, inputs)
}
//@ props=C15 tier=disabled fns=def_method_impl(CallDefaultImpl arm),<Rc<Unimock> as DelegateToDefaultImpl> inst="Rc<Self> provided method calling one required method" bounds="all a; one call"
#[kani::proof]
#[kani::unwind(4)]
#[kani::stub(crate::umk::private::eval, eval_d2)]
#[kani::stub(std::fmt::format, fmt_stub)]
fn c15_rc_self_one_nested_call() {
    let a: u8 = kani::any();
    let u = std::rc::Rc::new(Unimock::new(()));
    let keep = u.clone();
    let r = <Unimock as TD2>::prov(u, a);
    assert!(BODY.load(SeqCst) == 1);
    assert!(r == a.wrapping_add(5).wrapping_mul(2));
    assert!(EV.load(SeqCst) == 2 && STATE_OK.load(SeqCst) == 1);
    kani::cover!(a == 9);
    core::mem::forget(keep);
}

// ------------------------------------------------------------------------------------------- C16: unmock_with in three forms / positions
#[unimock(api = U1, unmock_with = [_, real_b, real_c(x, y)])]
pub trait TU1 {
    fn a(&self, x: u8) -> u8;
    fn b(&self, x: u8, y: u16) -> u32;
    fn c(&self, x: u8, y: u16) -> u32;
}
static REAL_CALLS: AtomicUsize = AtomicUsize::new(0);
static REAL_ARGS: AtomicU32 = AtomicU32::new(0);
static REAL_STATE: AtomicUsize = AtomicUsize::new(0);
fn real_b(t: &impl TU1, x: u8, y: u16) -> u32 {
    REAL_CALLS.fetch_add(1, SeqCst);
    REAL_ARGS.store(((x as u32) << 16) | y as u32, SeqCst);
    // a call back into the mocked trait is evaluated by the same mock
    (t.a(x) as u32) << 24 | (y as u32)
}
fn real_c(x: u8, y: u16) -> u32 {
    REAL_CALLS.fetch_add(1, SeqCst);
    REAL_ARGS.store(((x as u32) << 16) | y as u32, SeqCst);
    0xC000_0000 | ((x as u32) << 16) | y as u32
}
fn eval_u1<'u, 'i, F: MockFn + 'static>(u: &'u Unimock, inputs: F::Inputs<'i>) -> Eval<'u, 'i, F> {
    // the first evaluation is the unmocked method; a second one (if any) is the nested call to `a`
    if EV.fetch_add(1, SeqCst) == 1 {
        if umk::verif::state_id(u) == STATE.load(SeqCst) {
            STATE_OK.fetch_add(1, SeqCst);
        }
        let f: &'static <U1::a as MockFn>::AnswerFn = &|_u, x| x ^ 0x80;
        return answer_with::<F, _>(f, inputs);
    }
    STATE.store(umk::verif::state_id(u), SeqCst);
    Eval::Continue(Continuation::Unmock, inputs)
}
//@ props=C16 tier=quick fns=def_method_impl(unmock arm),Attr::get_unmock_fn inst="unmock_with=[_, real_b, real_c(x, y)], method b: path form at list position 1" bounds="all (x, y); one call; recursion depth 1 through the mock"
/// C16: the function named in unmock_with is invoked exactly once with the mock as first argument and the caller's
/// arguments in order; its result is returned unchanged; calls it makes back into the trait hit the same mock.
#[kani::proof]
#[kani::unwind(4)]
#[kani::stub(crate::umk::private::eval, eval_u1)]
#[kani::stub(std::fmt::format, fmt_stub)]
fn c16_unmock_path_form_position1() {
    let (x, y): (u8, u16) = (kani::any(), kani::any());
    let u = Unimock::new(());
    let r = <Unimock as TU1>::b(&u, x, y);
    assert!(REAL_CALLS.load(SeqCst) == 1, "the real function ran exactly once");
    assert!(REAL_ARGS.load(SeqCst) == (((x as u32) << 16) | y as u32), "caller's arguments, in order");
    assert!(r == (((x ^ 0x80) as u32) << 24 | y as u32), "result returned unchanged (including the nested mocked call)");
    assert!(EV.load(SeqCst) == 2 && STATE_OK.load(SeqCst) == 1, "the nested call was evaluated by the same mock");
    kani::cover!(x == 1 && y == 2);
    core::mem::forget(u);
}
//@ props=C16 tier=quick fns=def_method_impl(unmock arm),Attr::get_unmock_fn inst="method c: explicit parameter-list form real_c(x, y) at list position 2" bounds="all (x, y); one call"
#[kani::proof]
#[kani::unwind(4)]
#[kani::stub(crate::umk::private::eval, eval_u1)]
#[kani::stub(std::fmt::format, fmt_stub)]
fn c16_unmock_param_list_form_position2() {
    let (x, y): (u8, u16) = (kani::any(), kani::any());
    let u = Unimock::new(());
    let r = <Unimock as TU1>::c(&u, x, y);
    assert!(REAL_CALLS.load(SeqCst) == 1);
    assert!(REAL_ARGS.load(SeqCst) == (((x as u32) << 16) | y as u32), "the listed parameter expressions, in order");
    assert!(r == (0xC000_0000 | ((x as u32) << 16) | y as u32));
    assert!(EV.load(SeqCst) == 1);
    kani::cover!(y == 65535);
    core::mem::forget(u);
}

// ------------------------------------------------------------------------------------------- C16: async unmock
#[unimock(api = U2, unmock_with = [real_async])]
pub trait TU2 {
    async fn f(&self, x: u8) -> u8;
}
async fn real_async(_t: &impl TU2, x: u8) -> u8 {
    REAL_CALLS.fetch_add(1, SeqCst);
    x.wrapping_add(7)
}
fn eval_u2<'u, 'i, F: MockFn + 'static>(u: &'u Unimock, inputs: F::Inputs<'i>) -> Eval<'u, 'i, F> {
    EV.fetch_add(1, SeqCst);
    Eval::Continue(Continuation::Unmock, inputs)
}
//@ props=C16,C05 tier=quick fns=def_method_impl(unmock arm, async) inst="async fn f(&self, x: u8) -> u8 with unmock_with=[real_async]" bounds="all x; polled once"
#[kani::proof]
#[kani::unwind(4)]
#[kani::stub(crate::umk::private::eval, eval_u2)]
#[kani::stub(std::fmt::format, fmt_stub)]
fn c16_unmock_async_awaited() {
    let x: u8 = kani::any();
    let u = Unimock::new(());
    {
        let mut fut = core::pin::pin!(<Unimock as TU2>::f(&u, x));
        assert!(EV.load(SeqCst) == 0 && REAL_CALLS.load(SeqCst) == 0, "nothing before the first poll");
        let mut cx = core::task::Context::from_waker(core::task::Waker::noop());
        match fut.as_mut().poll(&mut cx) {
            core::task::Poll::Ready(r) => assert!(r == x.wrapping_add(7), "the real function's result, awaited"),
            core::task::Poll::Pending => assert!(false),
        }
    }
    assert!(EV.load(SeqCst) == 1 && REAL_CALLS.load(SeqCst) == 1);
    kani::cover!(x == 250);
    core::mem::forget(u);
}

// ------------------------------------------------------------------------------------------- C16: list positions after a receiver-less provided fn
#[unimock(api = U3, unmock_with = [_, real_double, real_triple])]
pub trait TU3 {
    fn unit() -> u8
    where
        Self: Sized,
    {
        1
    }
    fn double(&self, x: u8) -> u16;
    fn triple(&self, x: u8) -> u16;
}
static WHICH: AtomicU8 = AtomicU8::new(0);
fn real_double(_: &impl TU3, x: u8) -> u16 {
    WHICH.store(2, SeqCst);
    2 * x as u16
}
fn real_triple(_: &impl TU3, x: u8) -> u16 {
    WHICH.store(3, SeqCst);
    3 * x as u16
}
//@ props=C16 tier=quick fns=def_method_impl(unmock arm),Attr::get_unmock_fn,generate inst="unmock_with=[_, real_double, real_triple] on a trait whose first item is a receiver-less provided fn" bounds="all x; both methods"
/// the unmock_with list is positional over ALL fn items of the trait, also those the macro does not mock
#[kani::proof]
#[kani::unwind(4)]
#[kani::stub(crate::umk::private::eval, eval_u2)]
#[kani::stub(std::fmt::format, fmt_stub)]
fn c16_unmock_positions_after_skipped_item() {
    let x: u8 = kani::any();
    let u = Unimock::new(());
    assert!(<Unimock as TU3>::double(&u, x) == 2 * x as u16 && WHICH.load(SeqCst) == 2, "double -> its own function");
    assert!(<Unimock as TU3>::triple(&u, x) == 3 * x as u16 && WHICH.load(SeqCst) == 3, "triple -> its own function");
    kani::cover!(x == 7);
    core::mem::forget(u);
}
