//! C17 (and the composite half of C12): composite returns reproduce the configured value shape-for-shape.
//! For every method of the family the output kind is the one THE MACRO CHOSE (`<M::f as MockFn>::OutputKind`);
//! a symbolic value of the configured type goes through into_return / into_return_once and comes back out of
//! output() — twice — and is compared variant by variant, leaf by leaf; borrowed leaves also by address.
use core::sync::atomic::{AtomicUsize, Ordering::SeqCst};
use core::task::Poll;
use umk::output::{GetOutput, IntoReturn, IntoReturnOnce, Kind};
use umk::*;

static DROPS: AtomicUsize = AtomicUsize::new(0);
static CLONES: AtomicUsize = AtomicUsize::new(0);

/// single-use owned leaf (no Clone)
#[derive(Debug, PartialEq)]
pub struct Tok(pub u8);
impl Drop for Tok {
    fn drop(&mut self) {
        DROPS.fetch_add(1, SeqCst);
    }
}
/// repeatable owned leaf
#[derive(Debug, PartialEq)]
pub struct CTok(pub u8);
impl Clone for CTok {
    fn clone(&self) -> Self {
        CLONES.fetch_add(1, SeqCst);
        CTok(self.0)
    }
}

#[unimock(api = R)]
pub trait Rt {
    fn owned(&self) -> u16;
    fn opt_owned(&self) -> Option<u8>;
    fn lend(&self) -> &u8;
    fn lend_str(&self) -> &str;
    fn static_ref(&self) -> &'static u8;
    fn opt_ref(&self) -> Option<&u8>;
    fn opt_str(&self) -> Option<&str>;
    fn res_ref(&self) -> Result<&u8, u16>;
    fn res_slice_tok(&self) -> Result<&[u8], Tok>;
    fn vec_ref(&self) -> Vec<&u8>;
    fn tup2(&self) -> (&u8, u16);
    fn tup3(&self) -> (u8, &u8, &str);
    fn poll_opt(&self) -> Poll<Option<&u8>>;
    fn poll_res_ctok(&self) -> Poll<Result<&u8, CTok>>;
    fn vec_res_tok(&self) -> Vec<Result<&u8, Tok>>;
    fn opt_res(&self) -> Option<Result<&u8, u8>>;
    fn res_str_static(&self) -> Result<&str, &'static str>;
}

type Stored<F> = <<F as MockFn>::OutputKind as Kind>::Return;
fn repeat<F: MockFn, V: IntoReturn<F::OutputKind>>(v: V) -> Stored<F> {
    match v.into_return() {
        Ok(s) => s,
        Err(_) => panic!("unproducible"),
    }
}
fn once<F: MockFn, V: IntoReturnOnce<F::OutputKind>>(v: V) -> Stored<F> {
    match v.into_return_once() {
        Ok(s) => s,
        Err(_) => panic!("unproducible"),
    }
}
fn pool() -> &'static str {
    match kani::any::<u8>() % 3 {
        0 => "",
        1 => "ab",
        _ => "b",
    }
}

//@ props=C17 tier=quick fns=Owning::into_return,Owned::output inst="fn owned(&self) -> u16 ; fn opt_owned(&self) -> Option<u8>" bounds="all u16 / Option<u8> values; two requests"
#[kani::proof]
#[kani::unwind(4)]
fn c17_owned_and_option_owned() {
    let v: u16 = kani::any();
    let s = repeat::<R::owned, _>(v);
    assert!(s.output() == Some(v) && s.output() == Some(v));
    let o: Option<u8> = kani::any();
    let s2 = repeat::<R::opt_owned, _>(o);
    assert!(s2.output() == Some(o) && s2.output() == Some(o));
    let s3 = once::<R::opt_owned, _>(o);
    assert!(s3.output() == Some(o));
    assert!(s3.output().is_none(), "an owned value configured through the single-use path is single-use");
    kani::cover!(o.is_none());
    kani::cover!(o == Some(3));
}

//@ props=C17,C13 tier=quick fns=Lending::into_return,Lent::output,StaticRef::into_return,Reference::output inst="-> &u8 ; -> &str ; -> &'static u8" bounds="all u8 values; string from a 3-literal pool; two requests (address stability)"
#[kani::proof]
#[kani::unwind(4)]
fn c17_lent_and_static_refs() {
    let v: u8 = kani::any();
    let s = repeat::<R::lend, _>(v);
    let (a, b) = (s.output().unwrap(), s.output().unwrap());
    assert!(*a == v && core::ptr::eq(a, b), "borrowed return: same value, same address on every call");
    let p = pool();
    let s2 = repeat::<R::lend_str, _>(p);
    let (x, y) = (s2.output().unwrap(), s2.output().unwrap());
    assert!(x.len() == p.len() && x.as_ptr() == y.as_ptr());
    assert!(x.as_bytes().first() == p.as_bytes().first());
    static K: u8 = 77;
    let s3 = repeat::<R::static_ref, _>(&K);
    assert!(core::ptr::eq(s3.output().unwrap(), &K));
    kani::cover!(p.len() == 2);
}

//@ props=C17 tier=quick fns=Shallow<Option>::into_return,RefResponse::output inst="-> Option<&u8> ; -> Option<&str>" bounds="all Option<u8>; Option of a 3-literal pool; two requests"
#[kani::proof]
#[kani::unwind(4)]
fn c17_option_of_ref() {
    let o: Option<u8> = kani::any();
    let s = repeat::<R::opt_ref, _>(o);
    let (a, b) = (s.output().unwrap(), s.output().unwrap());
    match (o, a, b) {
        (None, None, None) => {}
        (Some(v), Some(x), Some(y)) => assert!(*x == v && core::ptr::eq(x, y)),
        _ => assert!(false, "same variant"),
    }
    let os: Option<&'static str> = if kani::any() { Some(pool()) } else { None };
    let s2 = once::<R::opt_str, _>(os);
    match (os, s2.output().unwrap()) {
        (None, None) => {}
        (Some(p), Some(x)) => assert!(x.len() == p.len()),
        _ => assert!(false, "same variant"),
    }
    kani::cover!(o.is_some());
    kani::cover!(os.is_none());
}

//@ props=C17 tier=quick fns=Shallow<Result>/Deep<Result>::into_return,output inst="-> Result<&u8, u16>" bounds="all Result<u8,u16>; two requests"
#[kani::proof]
#[kani::unwind(4)]
fn c17_result_of_ref() {
    let r: Result<u8, u16> = if kani::any() { Ok(kani::any()) } else { Err(kani::any()) };
    let s = repeat::<R::res_ref, _>(r);
    let (a, b) = (s.output().unwrap(), s.output().unwrap());
    match (r, a, b) {
        (Ok(v), Ok(x), Ok(y)) => assert!(*x == v && core::ptr::eq(x, y)),
        (Err(e), Err(x), Err(y)) => assert!(x == e && y == e),
        _ => assert!(false, "same variant"),
    }
    kani::cover!(r.is_ok());
    kani::cover!(r.is_err());
}

//@ props=C17,C12 tier=quick fns=determine_output_structure,Deep<Result>::into_return_once,AsReturn::output inst="-> Result<&str, &'static str> (a self-borrowed leaf next to a 'static leaf)" bounds="Ok(string from a 3-literal pool) | Err(same pool); single-use path; two requests"
/// A return type that mixes a leaf borrowed from self with a 'static leaf is still a composite: the borrowed leaf is
/// lent by the mock (same address on every call, available on every call), the other leaf is the single-use one.
#[kani::proof]
#[kani::unwind(4)]
fn c17_result_ref_with_static_err() {
    let ok: bool = kani::any();
    let text = pool();
    let r: Result<&'static str, &'static str> = if ok { Ok(text) } else { Err(text) };
    let s = once::<R::res_str_static, _>(r);
    let (a, b) = (s.output(), s.output());
    if ok {
        match (a, b) {
            (Some(Ok(x)), Some(Ok(y))) => assert!(x.len() == text.len() && core::ptr::eq(x.as_ptr(), y.as_ptr())),
            _ => assert!(false, "the borrowed leaf is returned on every call"),
        }
    } else {
        assert!(matches!(a, Some(Err(e)) if e.len() == text.len()));
        assert!(b.is_none(), "the owned leaf was configured through the single-use path");
    }
    kani::cover!(ok);
    kani::cover!(!ok);
    core::mem::forget(s);
}

//@ props=C17,C12 tier=quick fns=Deep<Result>::into_return_once,AsReturn::output,Owning::into_return_once inst="-> Result<&[u8], Tok> (Tok: no Clone)" bounds="Ok(slice of length <= 2, symbolic bytes) | Err(Tok(all u8)); three requests; drop counter"
/// borrowed leaves can be returned on every call; an owned non-Clone leaf is single-use: delivered once, the second
/// request yields None (=> the call panics), dropped exactly once overall.
#[kani::proof]
#[kani::unwind(5)]
fn c17_c12_result_slice_or_single_use_error() {
    let is_ok: bool = kani::any();
    let t: u8 = kani::any();
    let arr: [u8; 2] = kani::any();
    let s = if is_ok {
        once::<R::res_slice_tok, Result<[u8; 2], Tok>>(Ok(arr))
    } else {
        once::<R::res_slice_tok, Result<[u8; 2], Tok>>(Err(Tok(t)))
    };
    let first = s.output();
    match first {
        Some(Ok(sl)) => {
            assert!(is_ok && sl.len() == 2 && sl[0] == arr[0] && sl[1] == arr[1]);
            // the borrowed Ok side may be handed out again
            assert!(matches!(s.output(), Some(Ok(again)) if again.as_ptr() == sl.as_ptr()));
        }
        Some(Err(tok)) => {
            assert!(!is_ok && tok.0 == t);
            drop(tok);
            assert!(s.output().is_none(), "second request for the single-use leaf");
            assert!(s.output().is_none());
        }
        None => assert!(false, "the first request is always served"),
    }
    drop(s);
    assert!(DROPS.load(SeqCst) == if is_ok { 0 } else { 1 }, "never duplicated, dropped exactly once");
    kani::cover!(is_ok);
    kani::cover!(!is_ok);
}

fn vec_case(n: usize) {
    // the element count is a CONSTANT per harness: collecting into a Vec of symbolic length is an allocation of
    // symbolic size (DESIGN section 1)
    let e: [u8; 2] = kani::any();
    let v: Vec<u8> = match n {
        0 => Vec::new(),
        1 => vec![e[0]],
        _ => vec![e[0], e[1]],
    };
    let s = repeat::<R::vec_ref, _>(v);
    let a = s.output().unwrap();
    let b = s.output().unwrap();
    assert!(a.len() == n && b.len() == n, "same element count");
    if n >= 1 {
        assert!(*a[0] == e[0] && core::ptr::eq(a[0], b[0]));
    }
    if n >= 2 {
        assert!(*a[1] == e[1] && core::ptr::eq(a[1], b[1]), "same element order");
    }
    kani::cover!(n < 2 || e[0] != e[1]);
    core::mem::forget(a);
    core::mem::forget(b);
    core::mem::forget(s);
}

//@ props=C17 tier=quick fns=Shallow<Vec>::into_return,Response::output inst="-> Vec<&u8>, 0 elements" bounds="empty vector; two requests"
#[kani::proof]
#[kani::unwind(4)]
fn c17_vec_of_ref_0() {
    vec_case(0)
}

//@ props=C17 tier=quick fns=Shallow<Vec>::into_return,Response::output inst="-> Vec<&u8>, 1 element" bounds="symbolic byte; two requests"
#[kani::proof]
#[kani::unwind(4)]
fn c17_vec_of_ref_1() {
    vec_case(1)
}

//@ props=C17 tier=quick fns=Shallow<Vec>::into_return,Response::output inst="-> Vec<&u8>, 2 elements" bounds="symbolic bytes; two requests (order, count, address stability)"
#[kani::proof]
#[kani::unwind(5)]
fn c17_vec_of_ref_2() {
    vec_case(2)
}

//@ props=C17 tier=quick fns=Deep<(K0,K1)>::into_return,AsReturn::output inst="-> (&u8, u16) ; -> (u8, &u8, &str)" bounds="all leaf values; two requests"
#[kani::proof]
#[kani::unwind(4)]
fn c17_tuples_mixed() {
    let (x, y): (u8, u16) = (kani::any(), kani::any());
    let s = repeat::<R::tup2, _>((x, y));
    let (a, b) = (s.output().unwrap(), s.output().unwrap());
    assert!(*a.0 == x && a.1 == y && *b.0 == x && b.1 == y && core::ptr::eq(a.0, b.0), "element order and leaves");
    let (p, q, r): (u8, u8, &'static str) = (kani::any(), kani::any(), pool());
    let s2 = repeat::<R::tup3, _>((p, q, r));
    let o = s2.output().unwrap();
    assert!(o.0 == p && *o.1 == q && o.2.len() == r.len());
    kani::cover!(x as u16 != y);
}

//@ props=C17 tier=quick fns=Deep<Poll>::into_return,AsReturn::output inst="-> Poll<Option<&u8>>" bounds="Pending | Ready(None) | Ready(Some(all u8)); two requests"
#[kani::proof]
#[kani::unwind(4)]
fn c17_poll_option_ref() {
    let tag: u8 = kani::any();
    kani::assume(tag < 3);
    let v: u8 = kani::any();
    let cfg: Poll<Option<u8>> = match tag {
        0 => Poll::Pending,
        1 => Poll::Ready(None),
        _ => Poll::Ready(Some(v)),
    };
    let s = repeat::<R::poll_opt, _>(cfg);
    let (a, b) = (s.output().unwrap(), s.output().unwrap());
    match (tag, a, b) {
        (0, Poll::Pending, Poll::Pending) => {}
        (1, Poll::Ready(None), Poll::Ready(None)) => {}
        (2, Poll::Ready(Some(x)), Poll::Ready(Some(y))) => assert!(*x == v && core::ptr::eq(x, y)),
        _ => assert!(false, "same variant"),
    }
    kani::cover!(tag == 0);
    kani::cover!(tag == 2);
}

//@ props=C17,C12 tier=quick fns=Deep<Poll>::into_return,Deep<Result>::into_return,Owning::into_return inst="-> Poll<Result<&u8, CTok>> configured through the repeatable path" bounds="Ready(Err(CTok(all u8))); three requests; clone counter"
/// owned leaves are single-use EXACTLY when configured through a single-use path: the repeatable path clones per request.
#[kani::proof]
#[kani::unwind(5)]
fn c17_c12_poll_ready_err_is_repeatable() {
    let t: u8 = kani::any();
    let s = repeat::<R::poll_res_ctok, Poll<Result<u8, CTok>>>(Poll::Ready(Err(CTok(t))));
    let mut i = 0;
    while i < 3 {
        match s.output() {
            Some(Poll::Ready(Err(c))) => assert!(c.0 == t),
            _ => assert!(false, "every request is served with the configured shape"),
        }
        i += 1;
    }
    assert!(CLONES.load(SeqCst) == 3, "one clone per request; the stored original stays");
    let s1 = once::<R::poll_res_ctok, Poll<Result<u8, CTok>>>(Poll::Ready(Err(CTok(t))));
    assert!(matches!(s1.output(), Some(Poll::Ready(Err(_)))));
    assert!(s1.output().is_none(), "single-use path: second request refused");
    kani::cover!(t == 9);
}

//@ props=C17,C12 tier=quick fns=Deep<Vec>::into_return_once,AsReturn::output inst="-> Vec<Result<&u8, Tok>> configured single-use" bounds="[Ok(a), Err(Tok(t)), Ok(b)], symbolic a,b,t; two requests"
/// a deep Vec with a spent single-use element refuses the WHOLE value the second time (never a shorter vector).
#[kani::proof]
#[kani::unwind(6)]
fn c17_c12_deep_vec_second_request_refused() {
    let (a, b, t): (u8, u8, u8) = (kani::any(), kani::any(), kani::any());
    let cfg: Vec<Result<u8, Tok>> = vec![Ok(a), Err(Tok(t)), Ok(b)];
    let s = once::<R::vec_res_tok, _>(cfg);
    let first = s.output().unwrap();
    assert!(first.len() == 3, "same element count");
    assert!(matches!(&first[0], Ok(x) if **x == a));
    assert!(matches!(&first[1], Err(k) if k.0 == t));
    assert!(matches!(&first[2], Ok(x) if **x == b), "same element order");
    let second = s.output();
    assert!(second.is_none(), "a spent owned leaf makes the whole value unavailable, it is never silently dropped from the vector");
    kani::cover!(a != b);
    core::mem::forget(first);
    core::mem::forget(s);
}

//@ props=C17 tier=thorough fns=Deep<Option>::into_return,Deep<Result>::into_return inst="-> Option<Result<&u8, u8>> (depth 3)" bounds="None | Some(Ok(all u8)) | Some(Err(all u8)); two requests"
#[kani::proof]
#[kani::unwind(4)]
fn c17_option_result_ref_depth3() {
    let tag: u8 = kani::any();
    kani::assume(tag < 3);
    let v: u8 = kani::any();
    let cfg: Option<Result<u8, u8>> = match tag {
        0 => None,
        1 => Some(Ok(v)),
        _ => Some(Err(v)),
    };
    let s = repeat::<R::opt_res, _>(cfg);
    let (a, b) = (s.output().unwrap(), s.output().unwrap());
    match (tag, a, b) {
        (0, None, None) => {}
        (1, Some(Ok(x)), Some(Ok(y))) => assert!(*x == v && core::ptr::eq(x, y)),
        (2, Some(Err(x)), Some(Err(y))) => assert!(x == v && y == v),
        _ => assert!(false, "same variant"),
    }
    kani::cover!(tag == 1);
}
