"""Symbolic executor over rustc MIR text, decided by z3.

Path exploration: DFS over machine states, forking at every symbolic decision (`decide`), with feasibility
pruning by the solver. Inputs are lazily initialised (an arbitrary pre-state): reading a field / discriminant /
integer that no one has written creates a fresh symbolic variable named after its access path.

Outcomes per path: ('return', value) | ('panic', site) | ('unknown', callee) | ('bound', where).
"""
import re, os, copy, time, itertools
import z3
from .parse import (parse_mir, parse_place, split_top, find_top, match_paren, strip_generics, Function, Place)
from .values import *


class ForkRequest(Exception):
    def __init__(self, key, conds):
        self.key = key
        self.conds = conds


class UnknownCallee(Exception):
    def __init__(self, callee, why=""):
        self.callee = callee
        self.why = why


class Unsupported(Exception):
    pass


class Lazy:
    """Shared provider of lazily created sub-values (fields, discriminant) of an unconstrained object, so that
    copies of the object made before a field is first read still agree on that field."""
    __slots__ = ("name", "fields", "discr")

    def __init__(self, name):
        self.name = name
        self.fields = {}
        self.discr = None


class Frame:
    __slots__ = ("fn", "locals", "bb", "ip", "dest", "ret_bb", "note")

    def __init__(self, fn):
        self.fn = fn
        self.locals = {}
        self.bb = 0
        self.ip = 0
        self.dest = None
        self.ret_bb = None
        self.note = None


class Machine:
    def __init__(self):
        self.frames = []
        self.pc = []            # list of z3 BoolRef
        self.trace = []         # list of event tuples
        self.visits = {}
        self.outcome = None
        self.decisions = {}
        self.steps = 0
        self.user = {}          # harness scratch (deep-copied on fork)

    def event(self, *e):
        self.trace.append(e)


_BINOPS = {"Eq", "Ne", "Lt", "Le", "Gt", "Ge", "Add", "Sub", "Mul", "Div", "Rem", "BitAnd", "BitOr", "BitXor", "Shl", "Shr",
           "AddWithOverflow", "SubWithOverflow", "MulWithOverflow", "AddUnchecked", "SubUnchecked", "MulUnchecked", "Offset",
           "Cmp", "ShlUnchecked", "ShrUnchecked"}
_UNOPS = {"Not", "Neg", "PtrMetadata"}

BUILTIN_ENUMS = {
    "Option": ["None", "Some"],
    "Result": ["Ok", "Err"],
    "ControlFlow": ["Continue", "Break"],
    "Entry": ["Vacant", "Occupied"],
    "Poll": ["Ready", "Pending"],
    "Ordering": ["Relaxed", "Release", "Acquire", "AcqRel", "SeqCst"],
    "Cow": ["Borrowed", "Owned"],
}


class Engine:
    def __init__(self, mir_text, src_root, loop_bound=6, max_depth=12):
        self.fns = parse_mir(mir_text)
        self.src_root = src_root
        self.loop_bound = loop_bound
        self.max_depth = max_depth
        self.fresh_n = itertools.count()
        self.solver = z3.Solver()
        self.solver.set("timeout", 20000)
        self.solver_time = 0.0
        self.solver_calls = 0
        self.handlers = []       # (compiled regex on stripped callee, handler)
        self.opaque_ok = []      # regexes of callees that may be treated as opaque (fresh result, event recorded)
        self.enums = dict(BUILTIN_ENUMS)
        self.structs = {}
        self.by_short = {}
        self.closures = {}
        self.closures_all = {}
        self.inline_filter = None
        self.run_drop_impls = set()   # type base names whose crate `Drop` impl is executed at drop terminators
        self._stmt_cache = {}
        self.vars = {}           # name -> z3 const (environment / lazily initialised inputs)
        self._index_sources()
        self._index_fns()
        from . import builtins
        builtins.install(self)

    # ------------------------------------------------------------------ indexing
    def _index_sources(self):
        for dp, _, fs in os.walk(os.path.join(self.src_root, "src")):
            for f in fs:
                if not f.endswith(".rs"):
                    continue
                txt = open(os.path.join(dp, f)).read()
                txt_nc = re.sub(r"//[^\n]*", "", txt)
                for m in re.finditer(r"\benum\s+(\w+)\s*(?:<[^{]*>)?\s*(?:where[^{]*)?\{", txt_nc):
                    body = txt_nc[m.end():_match_brace(txt_nc, m.end() - 1)]
                    vs = []
                    for part in split_top(body):
                        part = re.sub(r"#\[[^\]]*\]", "", part).strip()
                        mm = re.match(r"(\w+)", part)
                        if mm:
                            vs.append(mm.group(1))
                    self.enums.setdefault(m.group(1), vs)
                for m in re.finditer(r"\bstruct\s+(\w+)\s*(?:<[^{(;]*>)?\s*(?:where[^{]*)?\{", txt_nc):
                    body = txt_nc[m.end():_match_brace(txt_nc, m.end() - 1)]
                    fsn = []
                    for part in split_top(body):
                        part = re.sub(r"#\[[^\]]*\]", "", part).strip()
                        mm = re.match(r"(?:pub(?:\([^)]*\))?\s+)?(\w+)\s*:", part)
                        if mm:
                            fsn.append(mm.group(1))
                    self.structs.setdefault(m.group(1), fsn)

    def _index_fns(self):
        src_cache = {}
        for f in self.fns:
            if f.impl_span:
                file, line = f.impl_span
                p = os.path.join(self.src_root, file)
                if p not in src_cache:
                    try:
                        src_cache[p] = open(p).read().split("\n")
                    except OSError:
                        src_cache[p] = []
                lines = src_cache[p]
                if 0 < line <= len(lines):
                    hdr = " ".join(lines[line - 1:line + 3])
                    m = re.search(r"impl(?:\s*<.*?>)?\s+(?:(.+?)\s+for\s+)?([^{]+?)\s*(?:where|\{)", hdr)
                    if m:
                        f.trait = _base_name(m.group(1)) if m.group(1) else None
                        f.self_ty = _base_name(m.group(2))
                    if f.self_ty is None and re.search(r"derive\(", hdr):
                        pass
            self.by_short.setdefault(f.short, []).append(f)
            if f.closure_key:
                self.closures[f.closure_key] = f
                self.closures_all.setdefault(f.closure_key, []).append(f)

    def find_closure(self, key, m):
        """Closure body for a closure type; closures created by the SAME macro expansion in several functions share
        their type name, so prefer the body nested in one of the functions on the call stack."""
        c = self.closures_all.get(key, [])
        if len(c) <= 1:
            return c[0] if c else None
        for fr in reversed(m.frames):
            pre = fr.fn.raw_name + "::{closure"
            hit = [f for f in c if f.raw_name.startswith(pre)]
            if len(hit) == 1:
                return hit[0]
        return None

    def find_fn(self, pattern):
        """Find exactly one function whose raw name matches the regex."""
        c = [f for f in self.fns if re.search(pattern, f.raw_name)]
        if len(c) != 1:
            raise KeyError(f"{pattern}: {len(c)} matches {[x.raw_name for x in c][:6]}")
        return c[0]

    # ------------------------------------------------------------------ symbols
    def fresh(self, name, width=64):
        n = f"{name}#{next(self.fresh_n)}"
        v = z3.BitVec(n, width)
        self.vars[n] = v
        return v

    def fresh_bool(self, name):
        n = f"{name}#{next(self.fresh_n)}"
        v = z3.Bool(n)
        self.vars[n] = v
        return v

    def named(self, name, width=64):
        if name not in self.vars:
            self.vars[name] = z3.BitVec(name, width)
        return self.vars[name]

    def named_bool(self, name):
        if name not in self.vars:
            self.vars[name] = z3.Bool(name)
        return self.vars[name]

    # ------------------------------------------------------------------ solver
    def check(self, conds):
        t = time.time()
        self.solver.push()
        for c in conds:
            self.solver.add(c)
        r = self.solver.check()
        self.solver.pop()
        self.solver_time += time.time() - t
        self.solver_calls += 1
        return r

    def feasible(self, m, extra=()):
        return self.check(list(m.pc) + list(extra)) != z3.unsat

    def model(self, conds, logic=None, timeout_ms=None):
        t = time.time()
        if logic:
            sv = z3.SolverFor(logic)
            sv.set("timeout", timeout_ms or 120000)
            for c in conds:
                sv.add(c)
            r = sv.check()
            mod = sv.model() if r == z3.sat else None
        else:
            self.solver.push()
            for c in conds:
                self.solver.add(c)
            r = self.solver.check()
            mod = self.solver.model() if r == z3.sat else None
            self.solver.pop()
        self.solver_time += time.time() - t
        self.solver_calls += 1
        return r, mod

    def decide(self, m, key, conds):
        """Choose one of mutually exclusive conditions; forks the machine when several are feasible."""
        if key in m.decisions:
            return m.decisions[key]
        simp = []
        for c in conds:
            c = z3.simplify(c) if not isinstance(c, bool) else z3.BoolVal(c)
            simp.append(c)
        live = [i for i, c in enumerate(simp) if not z3.is_false(c) and (z3.is_true(c) or self.feasible(m, [c]))]
        if not live:
            m.outcome = ("infeasible", key)
            raise _Stop()
        if len(live) == 1:
            if not z3.is_true(simp[live[0]]):
                m.pc.append(simp[live[0]])
            m.decisions[key] = live[0]
            return live[0]
        raise ForkRequest(key, [(i, simp[i]) for i in live])

    # ------------------------------------------------------------------ values
    def clone_val(self, v):
        if isinstance(v, Adt):
            a = Adt(v.ty, v.discr)
            a.tag = v.tag
            a.lazy = getattr(v, "lazy", None)
            for k, c in v.fields.items():
                a.fields[k] = Cell(self.clone_val(c.val), c.ty, c.name)
            return a
        return v

    def force(self, cell, want=None):
        """Materialise an Opaque placeholder held by cell (shared laziness: copies agree)."""
        v = cell.val
        if isinstance(v, Opaque):
            res = getattr(v, "resolved", None)
            if res is None:
                res = self._materialise(v, want)
                v.resolved = res
            cell.val = self.clone_val(res)
            return cell.val
        if v is None:
            raise Unsupported(f"read of uninitialised {cell.name}")
        return v

    def _materialise(self, op, want):
        ty = (op.ty or "").strip()
        it = int_type(ty)
        if it:
            return Int(self.named(op.name, it[0]), it[0], it[1])
        if ty == "bool":
            return Bool(self.named_bool(op.name))
        if ty == "()":
            return UNIT
        if is_ref_type(ty):
            kind = "box" if "Box<" in ty.split("<")[0] + "<" else ("arc" if re.match(r"(std::sync::|alloc::sync::|std::rc::)?(Arc|Rc)<", ty) else "&")
            return Ref(Cell(Opaque(pointee(ty), op.name + ".*"), pointee(ty), op.name + ".*"), kind)
        if _base_name(ty) == "TypeId":
            return Int(self.named(op.name, 64), 64, False)
        if want == "int":
            return Int(self.named(op.name, 64), 64, False)
        if want == "bool":
            return Bool(self.named_bool(op.name))
        if want == "ref":
            return Ref(Cell(Opaque("?", op.name + ".*"), "?", op.name + ".*"))
        bn = _base_name(ty)
        if bn in ("Vec",) or ty.startswith("[") and want == "vec":
            return VecVal(Int(self.named(op.name + ".len", 64)), [], ty)
        a = Adt(ty)
        a.lazy = Lazy(op.name)
        return a

    def field_cell(self, adt, key, ty, name):
        c = adt.fields.get(key)
        if c is None:
            lazy = getattr(adt, "lazy", None)
            if lazy is not None:
                op = lazy.fields.get(key)
                if op is None:
                    op = Opaque(ty, f"{lazy.name}.{key[1]}" if key[0] is None else f"{lazy.name}.{key[0]}.{key[1]}")
                    lazy.fields[key] = op
                c = Cell(op, ty, op.name)
            else:
                c = Cell(None, ty, name)
            adt.fields[key] = c
        elif c.ty is None:
            c.ty = ty
        return c

    def discr_of(self, adt):
        if adt.discr is None:
            lazy = getattr(adt, "lazy", None)
            if lazy is None:
                raise Unsupported(f"discriminant of non-enum aggregate {adt.ty}")
            if lazy.discr is None:
                lazy.discr = Int(self.named(lazy.name + ".discr", 64), 64, True)
            adt.discr = lazy.discr
        if isinstance(adt.discr, int):
            return Int(z3.BitVecVal(adt.discr, 64), 64, True)
        return adt.discr

    def variant_index(self, enum, variant):
        vs = self.enums.get(enum)
        if vs is None or variant not in vs:
            raise Unsupported(f"unknown enum/variant {enum}::{variant}")
        return vs.index(variant)

    # ------------------------------------------------------------------ places
    def place_cell(self, m, fr, place, want=None):
        if isinstance(place, str):
            place = parse_place(place)
        c = fr.locals.get(place.local)
        if c is None:
            c = Cell(None, fr.fn.locals.get(place.local), f"{fr.fn.short}:{place.local}")
            fr.locals[place.local] = c
        variant = None
        for pr in place.proj:
            k = pr[0]
            if k == "deref":
                v = self.force(c, "ref")
                if isinstance(v, Ref):
                    c = v.cell
                elif isinstance(v, Adt):   # Box<T>/Unique/NonNull seen through as struct: follow field 0 chain
                    c = self._box_inner(v, c)
                else:
                    raise Unsupported(f"deref of {v!r}")
                variant = None
            elif k == "field":
                if c.val is None:
                    c.val = Adt("?", None)     # first write into an uninitialised aggregate
                v = self.force(c, "adt")
                if isinstance(v, Ref) and v.kind == "box":
                    # (_52.0: Unique<..>).0: NonNull<..> — keep the Ref through the wrapper fields
                    continue
                if not isinstance(v, Adt):
                    raise Unsupported(f"field {pr[1]} of {v!r} in {place}")
                c = self.field_cell(v, (variant, pr[1]), pr[2], f"{c.name}.{pr[1]}")
                variant = None
            elif k == "downcast":
                self.force(c, "adt")
                variant = pr[1]
                continue
            elif k == "constindex":
                v = self.force(c, "vec")
                if isinstance(v, Adt):
                    c = self.field_cell(v, (None, pr[1]), None, f"{c.name}[{pr[1]}]")
                elif isinstance(v, VecVal):
                    c = v.items[pr[1]]
                else:
                    raise Unsupported(f"index of {v!r}")
            elif k == "index":
                v = self.force(c, "vec")
                idx = self.operand(m, fr, "copy " + pr[1])
                i = self._concrete(idx)
                if i is None:
                    raise Unsupported("symbolic index")
                if isinstance(v, Adt):
                    c = self.field_cell(v, (None, i), None, f"{c.name}[{i}]")
                elif isinstance(v, VecVal):
                    c = v.items[i]
                else:
                    raise Unsupported(f"index of {v!r}")
        return c

    def _box_inner(self, v, c):
        raise Unsupported(f"deref of aggregate {v.ty}")

    def _concrete(self, v):
        if isinstance(v, Int):
            s = z3.simplify(v.e)
            if z3.is_bv_value(s):
                return s.as_long()
        return None

    # ------------------------------------------------------------------ operands & rvalues
    def operand(self, m, fr, s):
        s = s.strip()
        if s.startswith("no_retag "):
            s = s[9:]
        if s.startswith("copy "):
            c = self.place_cell(m, fr, s[5:])
            return self.clone_val(self.force(c))
        if s.startswith("move "):
            c = self.place_cell(m, fr, s[5:])
            return self.clone_val(self.force(c))
        if s.startswith("const "):
            return self.constant(s[6:].strip(), fr)
        if re.match(r"[<A-Za-z_]", s) and "::" in s:
            return FnItem(s)          # function item used as a value
        raise Unsupported("operand: " + s)

    def constant(self, s, fr=None):
        if s == "()":
            return UNIT
        if s in ("true", "false"):
            return Bool(z3.BoolVal(s == "true"))
        m = re.fullmatch(r"(-?\d+)_(\w+)", s)
        if m:
            w, sg = INT_TYPES[m.group(2)]
            return Int(z3.BitVecVal(int(m.group(1)), w), w, sg)
        if s.startswith('"'):
            return Str(s[1:s.rfind('"')])
        if s.startswith('b"'):
            return Str(s[2:s.rfind('"')])
        m = re.fullmatch(r"'(.)'", s)
        if m:
            return Int(z3.BitVecVal(ord(m.group(1)), 32), 32, False)
        mp = re.search(r"promoted\[(\d+)\]$", s)
        if mp and fr is not None:
            return self.eval_promoted(fr.fn, int(mp.group(1)))
        if "SizedTypeProperties>::ALIGN" in s:
            return Int(z3.BitVecVal(8, 64), 64, False)
        if "SizedTypeProperties>::SIZE" in s:
            return Int(z3.BitVecVal(8, 64), 64, False)
        if "SizedTypeProperties>::IS_ZST" in s:
            return Bool(z3.BoolVal(False))
        if s.startswith("ZeroSized: "):
            s = s[len("ZeroSized: "):]
            if not s.startswith("{closure@"):
                return FnItem(s)
        if s.startswith("{closure@"):
            return Adt(s, None)
        if re.match(r"usize::MAX|core::usize::MAX", s):
            return Int(z3.BitVecVal(2 ** 64 - 1, 64), 64, False)
        # unit enum variant as a constant, e.g. `const Option::<Infallible>::None`
        segs = [x for x in strip_generics(s).split("::") if x]
        if len(segs) >= 2 and segs[-2] in self.enums and segs[-1] in self.enums[segs[-2]]:
            return Adt(segs[-2], self.variant_index(segs[-2], segs[-1]))
        return FnItem(s)

    def eval_promoted(self, fn, n):
        name = f"{fn.raw_name}::promoted[{n}]"
        cands = [f for f in self.fns if f.raw_name == name]
        if len(cands) != 1:
            raise Unsupported("promoted constant not found: " + name)
        pf = cands[0]
        mm = Machine()
        frp = Frame(pf)
        mm.frames.append(frp)
        try:
            while mm.outcome is None:
                self.step(mm)
        except _Stop:
            pass
        if not mm.outcome or mm.outcome[0] != "return":
            raise Unsupported(f"promoted constant did not evaluate: {name}: {mm.outcome}")
        return mm.outcome[1]

    def rvalue(self, m, fr, s, dest_ty=None):
        s = s.strip()
        if s.startswith("&"):
            body = s[1:].strip()
            if body.startswith("raw const "):
                body = body[10:]
            elif body.startswith("raw mut "):
                body = body[8:]
            elif body.startswith("mut "):
                body = body[4:]
            elif body.startswith("fake shallow "):
                body = body[13:]
            elif body.startswith("fake "):
                body = body[5:]
            return Ref(self.place_cell(m, fr, body))
        if s.startswith(("copy ", "move ", "const ", "no_retag ")):
            k = find_top(s, " as ")
            if k >= 0 and s.endswith(")"):
                return self.cast(m, fr, s[:k], s[k + 4:])
            return self.operand(m, fr, s)
        if s.startswith("discriminant("):
            c = self.place_cell(m, fr, s[13:-1])
            v = self.force(c, "adt")
            if isinstance(v, Adt):
                return self.discr_of(v)
            raise Unsupported(f"discriminant of {v!r}")
        mm = re.match(r"(\w+)\(", s)
        if mm and mm.group(1) in _BINOPS and s.endswith(")"):
            a, b = split_top(s[len(mm.group(1)) + 1:-1])
            return self.binop(mm.group(1), self.operand(m, fr, a), self.operand(m, fr, b))
        if mm and mm.group(1) in _UNOPS and s.endswith(")"):
            return self.unop(mm.group(1), self.operand(m, fr, s[len(mm.group(1)) + 1:-1]))
        if s.startswith("Len(") or s.startswith("PtrMetadata("):
            inner = s[s.find("(") + 1:-1]
            if inner.startswith(("copy ", "move ")):
                v = self.operand(m, fr, inner)
            else:
                v = self.force(self.place_cell(m, fr, inner), "vec")
            if isinstance(v, Ref):
                v = self.force(v.cell, "vec")
            return self.vec_len(v)
        if s.startswith("CopyForDeref("):
            return self.operand(m, fr, "copy " + s[13:-1])
        if s.startswith("ShallowInitBox("):
            a = split_top(s[15:-1])[0]
            return self.operand(m, fr, a)
        if s.startswith("UbChecks()") or s.startswith("ContractChecks()") or s.startswith("OverflowChecks()"):
            return Bool(z3.BoolVal(False)) if not s.startswith("Overflow") else Bool(z3.BoolVal(True))
        if s.startswith("["):
            inner = s[1:-1]
            k = find_top(inner, "; ")
            a = Adt("[array]", None)
            if k >= 0:
                val = self.operand(m, fr, inner[:k])
                cnt = self._concrete(self.constant(inner[k + 2:].replace("const ", "")))
                for i in range(cnt or 0):
                    a.fields[(None, i)] = Cell(self.clone_val(val), None, f"arr[{i}]")
            else:
                for i, part in enumerate(split_top(inner)):
                    if part:
                        a.fields[(None, i)] = Cell(self.operand(m, fr, part), None, f"arr[{i}]")
            a.tag = "array"
            return a
        if s.startswith("("):
            a = Adt("(tuple)", None)
            for i, part in enumerate(split_top(s[1:-1])):
                if part:
                    a.fields[(None, i)] = Cell(self.operand(m, fr, part), None, f"tup.{i}")
            return a
        return self.aggregate(m, fr, s, dest_ty)

    def aggregate(self, m, fr, s, dest_ty):
        # closure: {closure@..} { cap: op, .. }  |  {closure@..}
        if s.startswith("{closure@") or s.startswith("{coroutine@") or s.startswith("{async"):
            e = match_paren(s, 0)
            a = Adt(s[:e + 1], None)
            rest = s[e + 1:].strip()
            if rest.startswith("{"):
                for i, part in enumerate(split_top(rest[1:-1].strip())):
                    if part:
                        k = part.find(": ")
                        a.fields[(None, i)] = Cell(self.operand(m, fr, part[k + 2:]), None, part[:k])
            return a
        # Name { f: op, .. }
        k = find_top(s, " {")
        if k >= 0 and s.endswith("}"):
            path = s[:k].strip()
            body = s[k + 2:-1].strip()
            name = _base_name(path)
            segs = [x for x in strip_generics(path).split("::") if x]
            parts = [p for p in split_top(body) if p]
            a = Adt(path, None)
            variant = None
            field_names = self.structs.get(name)
            if len(segs) >= 2 and segs[-2] in self.enums and segs[-1] in self.enums[segs[-2]]:
                a.discr = self.variant_index(segs[-2], segs[-1])
                a.ty = segs[-2]
                variant = segs[-1]
                field_names = None
            for i, part in enumerate(parts):
                kk = part.find(": ")
                fname, op = part[:kk].strip(), part[kk + 2:]
                idx = i
                if field_names and fname in field_names:
                    idx = field_names.index(fname)
                elif fname.isdigit():
                    idx = int(fname)
                a.fields[(variant, idx)] = Cell(self.operand(m, fr, op), None, fname)
            return a
        # Path(args)  — tuple struct / enum tuple variant
        if s.endswith(")"):
            o = _open_of_last_group(s)
            path = s[:o]
            args = [p for p in split_top(s[o + 1:-1]) if p]
            segs = [x for x in strip_generics(path).split("::") if x]
            a = Adt(path, None)
            variant = None
            if len(segs) >= 2 and segs[-2] in self.enums and segs[-1] in self.enums[segs[-2]]:
                a.discr = self.variant_index(segs[-2], segs[-1])
                a.ty = segs[-2]
                variant = segs[-1]
            for i, part in enumerate(args):
                a.fields[(variant, i)] = Cell(self.operand(m, fr, part), None, f"{segs[-1]}.{i}")
            return a
        # unit variant / unit struct: Path
        segs = [x for x in strip_generics(s).split("::") if x]
        if len(segs) >= 2 and segs[-2] in self.enums and segs[-1] in self.enums[segs[-2]]:
            a = Adt(segs[-2], self.variant_index(segs[-2], segs[-1]))
            return a
        if segs and re.fullmatch(r"[A-Z]\w*", segs[-1]):
            return Adt(s, None)
        raise Unsupported("rvalue: " + s)

    def cast(self, m, fr, op_s, rest):
        v = self.operand(m, fr, op_s)
        k = rest.rfind(" (")
        ty, kind = rest[:k].strip(), rest[k + 2:-1]
        it = int_type(ty)
        if isinstance(v, Int) and it:
            w, sg = it
            e = v.e
            if w > v.width:
                e = z3.SignExt(w - v.width, e) if v.signed else z3.ZeroExt(w - v.width, e)
            elif w < v.width:
                e = z3.Extract(w - 1, 0, e)
            return Int(e, w, sg)
        if isinstance(v, Bool) and it:
            return Int(z3.If(v.e, z3.BitVecVal(1, it[0]), z3.BitVecVal(0, it[0])), it[0], it[1])
        if isinstance(v, Ref) and it:
            # address of a live reference: unconstrained, non-null, suitably aligned
            # address of a live reference: some non-null, suitably aligned value (the compiler-inserted
            # alignment / null checks that consume it are skipped anyway, see exec_term)
            return Int(z3.BitVecVal(4096 + 16 * (next(self.fresh_n) % 1000), 64), 64, False)
        if isinstance(v, Adt) and getattr(v, "discr", None) is not None and it and kind == "IntToInt":
            d = self.discr_of(v)
            return Int(d.e, it[0], it[1]) if it[0] == 64 else Int(z3.Extract(it[0] - 1, 0, d.e), it[0], it[1])
        # pointer/unsize/transmute casts between reference-like things keep the value
        return v

    def vec_len(self, v):
        if isinstance(v, VecVal):
            n = z3.BitVecVal(len(v.items), 64)
            return Int(n if v.base is None else v.base.e + n, 64, False)
        if isinstance(v, Adt) and v.tag == "array":
            return Int(z3.BitVecVal(len(v.fields), 64), 64, False)
        if isinstance(v, Str):
            return Int(z3.BitVecVal(len(v.s), 64), 64, False)
        raise Unsupported(f"len of {v!r}")

    def binop(self, op, a, b):
        if isinstance(a, Bool) and isinstance(b, Bool):
            t = {"Eq": lambda: a.e == b.e, "Ne": lambda: a.e != b.e, "BitAnd": lambda: z3.And(a.e, b.e),
                 "BitOr": lambda: z3.Or(a.e, b.e), "BitXor": lambda: z3.Xor(a.e, b.e)}
            if op in t:
                return Bool(t[op]())
            raise Unsupported(f"bool binop {op}")
        if isinstance(a, Adt) and isinstance(b, Adt) and op in ("Eq", "Ne") and a.discr is not None and b.discr is not None:
            a, b = self.discr_of(a), self.discr_of(b)
        if isinstance(a, Unit) and isinstance(b, Unit):
            return Bool(z3.BoolVal(op == "Eq"))
        if not (isinstance(a, Int) and isinstance(b, Int)):
            raise Unsupported(f"binop {op} on {a!r}, {b!r}")
        x, y, w, sg = a.e, b.e, a.width, a.signed
        if b.width != w and op not in ("Shl", "Shr", "ShlUnchecked", "ShrUnchecked"):
            raise Unsupported(f"width mismatch in {op}")
        if op == "Eq":
            return Bool(x == y)
        if op == "Ne":
            return Bool(x != y)
        if op == "Lt":
            return Bool(x < y if sg else z3.ULT(x, y))
        if op == "Le":
            return Bool(x <= y if sg else z3.ULE(x, y))
        if op == "Gt":
            return Bool(x > y if sg else z3.UGT(x, y))
        if op == "Ge":
            return Bool(x >= y if sg else z3.UGE(x, y))
        if op in ("Add", "AddUnchecked"):
            return Int(x + y, w, sg)
        if op in ("Sub", "SubUnchecked"):
            return Int(x - y, w, sg)
        if op in ("Mul", "MulUnchecked"):
            return Int(x * y, w, sg)
        if op == "BitAnd":
            return Int(x & y, w, sg)
        if op == "BitOr":
            return Int(x | y, w, sg)
        if op == "BitXor":
            return Int(x ^ y, w, sg)
        if op in ("AddWithOverflow", "SubWithOverflow", "MulWithOverflow"):
            if op == "AddWithOverflow":
                r = x + y
                ov = z3.Not(z3.BVAddNoOverflow(x, y, sg)) if not sg else z3.Or(z3.Not(z3.BVAddNoOverflow(x, y, True)), z3.Not(z3.BVAddNoUnderflow(x, y)))
            elif op == "SubWithOverflow":
                r = x - y
                ov = z3.Not(z3.BVSubNoUnderflow(x, y, sg)) if not sg else z3.Or(z3.Not(z3.BVSubNoOverflow(x, y)), z3.Not(z3.BVSubNoUnderflow(x, y, True)))
            else:
                r = x * y
                ov = z3.Not(z3.BVMulNoOverflow(x, y, sg))
            t = Adt("(tuple)", None)
            t.fields[(None, 0)] = Cell(Int(r, w, sg), None, "ovf.0")
            t.fields[(None, 1)] = Cell(Bool(ov), None, "ovf.1")
            return t
        if op in ("Div", "Rem"):
            if op == "Div":
                return Int(x / y if sg else z3.UDiv(x, y), w, sg)
            return Int(z3.SRem(x, y) if sg else z3.URem(x, y), w, sg)
        if op in ("Shl", "ShlUnchecked"):
            return Int(x << _fit(y, b.width, w), w, sg)
        if op in ("Shr", "ShrUnchecked"):
            yy = _fit(y, b.width, w)
            return Int(x >> yy if sg else z3.LShR(x, yy), w, sg)
        raise Unsupported(f"binop {op}")

    def unop(self, op, a):
        if op == "Not":
            if isinstance(a, Bool):
                return Bool(z3.Not(a.e))
            return Int(~a.e, a.width, a.signed)
        if op == "Neg":
            return Int(-a.e, a.width, a.signed)
        if op == "PtrMetadata":
            if isinstance(a, Ref):
                return self.vec_len(self.force(a.cell, "vec"))
        raise Unsupported(f"unop {op}")

    # ------------------------------------------------------------------ running
    def start(self, fn, args, m=None):
        """Create a machine with `fn` called on argument values (python list of values)."""
        m = m or Machine()
        fr = Frame(fn)
        for (loc, ty), v in zip(fn.params, args):
            fr.locals[loc] = Cell(v, ty, f"{fn.short}:{loc}")
        m.frames.append(fr)
        m.user["_args"] = [fr.locals[loc] for loc, _ in fn.params[:len(args)]]   # roots, to inspect the final state of a path
        return m

    def arg(self, name, ty):
        """An unconstrained argument value."""
        return Opaque(ty, name)

    def explore(self, m, max_paths=4000, on_path=None):
        """Run all paths. Returns list of finished machines (outcome set)."""
        work = [m]
        done = []
        while work:
            cur = work.pop()
            try:
                while cur.outcome is None:
                    cur._mark = len(cur.trace)
                    self.step(cur)
            except ForkRequest as fr:
                key = fr.key
                del cur.trace[cur._mark:]     # the statement is re-executed in each branch: undo its events
                for i, (choice, cond) in enumerate(fr.conds):
                    mm = cur if i == len(fr.conds) - 1 else copy.deepcopy(cur)
                    mm.pc.append(cond)
                    mm.decisions[key] = choice
                    work.append(mm)
                continue
            except _Stop:
                pass
            except UnknownCallee as u:
                cur.outcome = ("unknown", u.callee + (" " + u.why if u.why else ""))
            except Unsupported as u:
                fr_ = cur.frames[-1] if cur.frames else None
                where = f"{fr_.fn.short} bb{fr_.bb}" if fr_ else "?"
                cur.outcome = ("unknown", f"unsupported: {u} @ {where}")
            if cur.outcome[0] != "infeasible":
                done.append(cur)
                if on_path:
                    on_path(cur)
            if len(done) > max_paths:
                raise RuntimeError("path explosion")
        return done

    def step(self, m):
        fr = m.frames[-1]
        blk = fr.fn.blocks[fr.bb]
        m.steps += 1
        if m.steps > 20000:
            m.outcome = ("bound", "step limit")
            return
        if fr.ip < len(blk.stmts):
            self.exec_stmt(m, fr, blk.stmts[fr.ip])
            fr.ip += 1
            m.decisions = {}
            return
        self.exec_term(m, fr, blk.term)
        m.decisions = {}

    def goto(self, m, fr, bb):
        key = (len(m.frames), id(fr.fn), bb)
        n = m.visits.get(key, 0) + 1
        m.visits[key] = n
        if n > self.loop_bound:
            m.outcome = ("bound", f"loop bound {self.loop_bound} at {fr.fn.short} bb{bb}")
            raise _Stop()
        fr.bb = bb
        fr.ip = 0

    def exec_stmt(self, m, fr, s):
        if s.startswith(("StorageLive", "StorageDead", "nop", "FakeRead", "PlaceMention", "AscribeUserType", "Retag", "Coverage", "ConstEvalCounter", "BackwardIncompatibleDropHint")):
            return
        if s.startswith("//"):
            return
        if s.startswith("Deinit("):
            return
        if s.startswith("assume("):
            v = self.operand(m, fr, s[7:-2] if s.endswith(";") else s[7:-1])
            if isinstance(v, Bool):
                m.pc.append(v.e)
            return
        if s.startswith("discriminant("):
            # SetDiscriminant: discriminant(place) = N;
            k = s.find(") = ")
            c = self.place_cell(m, fr, s[13:k])
            v = self.force(c, "adt")
            v.discr = int(s[k + 4:].rstrip(";"))
            return
        k = find_top(s, " = ")
        if k < 0 or not s.endswith(";"):
            raise Unsupported("stmt: " + s)
        lhs, rhs = s[:k], s[k + 3:-1]
        dest_pl = parse_place(lhs)
        val = self.rvalue(m, fr, rhs, None)
        c = self.place_cell(m, fr, dest_pl)
        c.val = val

    _re_targets = re.compile(r"\[(.*)\]$")

    def exec_term(self, m, fr, t):
        if t.startswith("goto -> "):
            return self.goto(m, fr, int(t[8:].strip(";")[2:]))
        if t.startswith("return"):
            return self.do_return(m, fr)
        if t.startswith("unreachable"):
            m.outcome = ("infeasible", "unreachable")
            raise _Stop()
        if t.startswith("resume") or t.startswith("abort") or t.startswith("terminate"):
            m.outcome = ("panic", t.strip(";"))
            raise _Stop()
        if t.startswith("switchInt("):
            e = match_paren(t, 9)
            v = self.operand(m, fr, t[10:e])
            targets = t[t.index("[", e) + 1:t.rindex("]")]
            conds, bbs = [], []
            if isinstance(v, Bool):
                v = Int(z3.If(v.e, z3.BitVecVal(1, 8), z3.BitVecVal(0, 8)), 8, False)
            if isinstance(v, Adt):
                v = self.discr_of(v)
            others = []
            for part in split_top(targets):
                a, b = part.split(": ")
                if a == "otherwise":
                    conds.append(z3.And([v.e != o for o in others]) if others else z3.BoolVal(True))
                else:
                    val = int(a)
                    kv = z3.BitVecVal(val, v.width)
                    others.append(kv)
                    conds.append(v.e == kv)
                bbs.append(int(b[2:]))
            k = self.decide(m, ("switch", fr.bb), conds)
            return self.goto(m, fr, bbs[k])
        if t.startswith("drop("):
            e = match_paren(t, 4)
            pl = t[5:e]
            c = self.place_cell(m, fr, pl)
            mt = re.search(r"return: bb(\d+)", t)
            ty = c.ty or fr.fn.locals.get(parse_place(pl).local, "?")
            bn = _base_name(ty)
            if bn in self.run_drop_impls and c.val is not None:
                cands = [f for f in self.by_short.get("drop", []) if f.self_ty == bn and f.trait == "Drop"]
                if len(cands) == 1:
                    nf = Frame(cands[0])
                    nf.locals[cands[0].params[0][0]] = Cell(Ref(c), None, "dropped")
                    nf.dest = None
                    nf.ret_bb = int(mt.group(1))
                    m.frames.append(nf)
                    m.event("drop_impl", bn)
                    return
            self.on_drop(m, fr, pl, c)
            return self.goto(m, fr, int(mt.group(1)))
        if t.startswith("assert("):
            e = match_paren(t, 6)
            inner = split_top(t[7:e])
            cond_s = inner[0]
            neg = cond_s.startswith("!")
            v = self.operand(m, fr, cond_s[1:] if neg else cond_s)
            msg = inner[1] if len(inner) > 1 else ""
            mt = re.search(r"success: bb(\d+)", t)
            if "misaligned pointer dereference" in msg or "null pointer dereference" in msg:
                return self.goto(m, fr, int(mt.group(1)))
            ok = z3.Not(v.e) if neg else v.e
            k = self.decide(m, ("assert", fr.bb), [ok, z3.Not(ok)])
            if k == 0:
                return self.goto(m, fr, int(mt.group(1)))
            m.outcome = ("panic", f"assert failed: {msg} @ {fr.fn.short} bb{fr.bb}")
            raise _Stop()
        if t.startswith("falseEdge") or t.startswith("falseUnwind"):
            mt = re.search(r"real: bb(\d+)", t)
            return self.goto(m, fr, int(mt.group(1)))
        return self.exec_call(m, fr, t)

    def on_drop(self, m, fr, pl, c):
        m.event("drop", fr.fn.short, pl, c.ty or fr.fn.locals.get(parse_place(pl).local, "?"))

    def do_return(self, m, fr):
        rc = fr.locals.get("_0")
        val = UNIT if rc is None or rc.val is None else self.force(rc)
        if fr.note and fr.note[0] == "iterdrive":
            # continuation of an iterator pipeline: decide (may fork => this `return` is re-executed) BEFORE mutating
            drv = fr.note[1]
            saved = (drv.stage, drv.phase, drv.cur, list(drv.acc), drv.it.pos, drv.it.count, drv.tick)
            m.frames.pop()
            try:
                st, out = self.on_drive_return(m, drv, val)
            except ForkRequest:
                m.frames.append(fr)
                drv.stage, drv.phase, drv.cur, drv.acc, drv.it.pos, drv.it.count, drv.tick = saved[0], saved[1], saved[2], saved[3], saved[4], saved[5], saved[6]
                raise
            if st == "done":
                self.drive_deliver(m, drv, out)
            return
        m.frames.pop()
        if fr.note:
            if fr.note[0] == "wrap":
                val = self.mk_enum(fr.note[1], fr.note[2], val)
            elif fr.note[0] == "not":
                val = Bool(z3.Not(val.e))
            elif fr.note[0] == "once_init":
                opt = self.mk_enum("Option", "Some", val)
                fr.note[1].val = opt
                m.event("oncecell_init")
                val = Ref(opt.fields[("Some", 0)])
        if not m.frames:
            m.outcome = ("return", val)
            raise _Stop()
        caller = m.frames[-1]
        if fr.dest is not None:
            c = self.place_cell(m, caller, fr.dest)
            c.val = val
        if fr.ret_bb is None:
            m.outcome = ("panic", "returned from diverging call")
            raise _Stop()
        self.goto(m, caller, fr.ret_bb)

    # ------------------------------------------------------------------ calls
    def parse_call(self, t):
        c = self._stmt_cache.get(t)
        if c:
            return c
        k = t.rfind(" -> ")
        head, tail = t[:k], t[k + 4:]
        eq = find_top(head, " = ")
        dest, call = head[:eq], head[eq + 3:]
        o = _open_of_last_group(call)
        callee = call[:o]
        args = [a for a in split_top(call[o + 1:-1]) if a]
        mt = re.search(r"return: bb(\d+)", tail)
        ret_bb = int(mt.group(1)) if mt else None
        mu = re.search(r"unwind: bb(\d+)", tail)
        c = (dest, callee, args, ret_bb, int(mu.group(1)) if mu else None)
        self._stmt_cache[t] = c
        return c

    def exec_call(self, m, fr, t):
        dest, callee, args_s, ret_bb, unwind_bb = self.parse_call(t)
        argv = [self.operand(m, fr, a) for a in args_s]
        norm = normalise_callee(callee)
        call = CallCtx(self, m, fr, dest, callee, norm, args_s, argv, ret_bb)
        # 1. explicit handlers (std summaries, environment, per-query overrides)
        for rx, h in self.handlers:
            if rx.search(norm):
                r = h(call)
                if r is NotImplemented:
                    continue
                return self._finish_call(call, r)
        # 2. crate-internal: inline
        target = self.resolve(callee, norm, argv)
        if target is not None and (self.inline_filter is None or self.inline_filter(target)):
            if len(m.frames) >= self.max_depth:
                m.outcome = ("bound", "call depth")
                raise _Stop()
            nf = Frame(target)
            for (loc, ty), v in zip(target.params, argv):
                nf.locals[loc] = Cell(v, ty, f"{target.short}:{loc}")
            nf.dest = parse_place(dest)
            nf.ret_bb = ret_bb
            m.frames.append(nf)
            m.event("call", target.raw_name)
            return
        # 3. callees the query declared opaque
        for rx in self.opaque_ok:
            if rx.search(norm):
                m.event("opaque", norm, tuple(_brief(a) for a in argv))
                rty = fr.fn.locals.get(parse_place(dest).local, "?")
                return self._finish_call(call, Opaque(rty, f"ret:{_short(norm)}#{next(self.fresh_n)}"))
        raise UnknownCallee(norm)

    def _finish_call(self, call, r):
        m, fr = call.m, call.fr
        if isinstance(r, Panic):
            m.outcome = ("panic", r.site)
            raise _Stop()
        if isinstance(r, Inlined):
            return
        c = self.place_cell(m, fr, call.dest)
        c.val = r
        if call.ret_bb is None:
            m.outcome = ("panic", f"diverging call returned: {call.norm}")
            raise _Stop()
        self.goto(m, fr, call.ret_bb)

    def resolve(self, callee, norm, argv):
        """Map a callee path to a crate Function (by method name + self type / module path)."""
        # closure call through Fn traits is handled by builtins; here: paths
        segs = [s for s in norm.split("::") if s]
        if not segs:
            return None
        short = segs[-1]
        cands = self.by_short.get(short, [])
        if not cands:
            return None
        # `<T as Trait>::method` form
        mt = re.match(r"^<(.+) as (.+)>::(\w+)$", callee.strip())
        self_ty = trait = None
        if mt:
            self_ty, trait = _base_name(mt.group(1)), _base_name(mt.group(2))
        elif len(segs) >= 2:
            self_ty = segs[-2]
        out = []
        for f in cands:
            if f.self_ty is not None:
                if self_ty is not None and f.self_ty == self_ty and (trait is None or f.trait is None or f.trait == trait):
                    out.append(f)
            else:
                # free function: module path suffix must match
                mod = [x for x in strip_generics(f.module).split("::") if x]
                pre = segs[:-1]
                if not pre or mod[-len(pre):] == pre or (pre and mod and mod[-1] == pre[-1]):
                    out.append(f)
        if not out and self_ty is not None:
            # impls generated by macro_rules (the impl header names `$typename`): go by the receiver / return type
            o2 = [f for f in cands if f.params and _base_name(f.params[0][1]) == self_ty and len(f.params) == len(argv)]
            if not o2:
                o2 = [f for f in cands if _base_name(f.ret) == self_ty and len(f.params) == len(argv) and f.self_ty and f.self_ty.startswith("$")]
            if len(o2) == 1:
                return o2[0]
        if len(out) == 1:
            return out[0]
        if len(out) > 1 and trait:
            o2 = [f for f in out if f.trait == trait]
            if len(o2) == 1:
                return o2[0]
        if len(out) > 1:
            # disambiguate by arity
            o2 = [f for f in out if len(f.params) == len(argv)]
            if len(o2) == 1:
                return o2[0]
        return None


class CallCtx:
    def __init__(self, eng, m, fr, dest, callee, norm, args_s, argv, ret_bb):
        self.eng, self.m, self.fr = eng, m, fr
        self.dest, self.callee, self.norm, self.args_s, self.argv, self.ret_bb = dest, callee, norm, args_s, argv, ret_bb

    @property
    def ret_ty(self):
        return self.fr.fn.locals.get(parse_place(self.dest).local, "?")

    def deref(self, v, want=None):
        """Follow a Ref value to the value it points at (materialising)."""
        if isinstance(v, Ref):
            return self.eng.force(v.cell, want)
        return v

    def inline(self, fn, argv):
        eng, m = self.eng, self.m
        nf = Frame(fn)
        for (loc, ty), v in zip(fn.params, argv):
            nf.locals[loc] = Cell(v, ty, f"{fn.short}:{loc}")
        nf.dest = parse_place(self.dest)
        nf.ret_bb = self.ret_bb
        m.frames.append(nf)
        m.event("call", fn.raw_name)
        return Inlined()


class Panic:
    def __init__(self, site):
        self.site = site


class Inlined:
    pass


class _Stop(Exception):
    pass


def normalise_callee(c):
    """`<Vec<T> as IntoIterator>::into_iter` -> `<Vec as IntoIterator>::into_iter`; `Vec::<T>::push` -> `Vec::push`."""
    c = c.strip()
    m = re.match(r"^<(.+) as (.+)>::(.+)$", c)
    if m and find_top(c[1:], " as ") >= 0:
        k = find_top(c[1:], " as ") + 1
        e = match_angle(c, 0)
        a, b = c[1:k], c[k + 4:e]
        rest = c[e + 1:]
        return f"<{_type_brief(a)} as {_base_name(b)}>{strip_generics(rest) and '::' + strip_generics(rest)}"
    if c.startswith("<") and not c.startswith("<impl at"):
        e = match_angle(c, 0)
        return f"<{_type_brief(c[1:e])}>::{strip_generics(c[e + 1:])}"
    return strip_generics(c)


def match_angle(s, i):
    depth = 0
    for j in range(i, len(s)):
        ch = s[j]
        if ch == "<":
            depth += 1
        elif ch == ">" and not (j > 0 and s[j - 1] in "-="):
            depth -= 1
            if depth == 0:
                return j
    raise ValueError("unbalanced <>: " + s)


def _type_brief(t):
    t = t.strip()
    pre = ""
    while t.startswith("&"):
        pre += "&"
        t = t[1:].strip()
        t = re.sub(r"^'\w+\s+", "", t)
        if t.startswith("mut "):
            pre += "mut "
            t = t[4:]
    if t.startswith("{closure@"):
        return pre + t
    if t.startswith("impl ") or t.startswith("dyn "):
        return pre + t.split("(")[0].split("<")[0].strip()
    if t.startswith("["):
        return pre + "[slice]"
    if t.startswith("("):
        return pre + "(tuple)"
    return pre + _base_name(t)


def _base_name(t):
    if t is None:
        return None
    t = strip_generics(t.strip().lstrip("&").strip())
    t = re.sub(r"^(mut |dyn |impl )", "", t)
    segs = [s for s in t.split("::") if s]
    return segs[-1].strip() if segs else t


def _open_of_last_group(s):
    """s ends with ')': index of the matching '('."""
    depth = 0
    instr = False
    i = len(s) - 1
    while i >= 0:
        c = s[i]
        if c == '"' and (i == 0 or s[i - 1] != "\\"):
            instr = not instr
        elif not instr:
            if c in ")]}":
                depth += 1
            elif c in "([{":
                depth -= 1
                if depth == 0:
                    return i
        i -= 1
    raise ValueError("no group: " + s)


def _match_brace(s, i):
    depth = 0
    for j in range(i, len(s)):
        if s[j] == "{":
            depth += 1
        elif s[j] == "}":
            depth -= 1
            if depth == 0:
                return j
    return len(s)


def _fit(e, w_from, w_to):
    if w_from == w_to:
        return e
    if w_from < w_to:
        return z3.ZeroExt(w_to - w_from, e)
    return z3.Extract(w_to - 1, 0, e)


def _brief(v):
    if isinstance(v, Ref):
        return "&" + (v.cell.name or "")
    if isinstance(v, (Int, Bool)):
        return str(z3.simplify(v.e))
    if isinstance(v, Adt):
        return f"{_base_name(v.ty) if v.ty else 'adt'}"
    return type(v).__name__


def _short(n):
    return n.split("::")[-1]
