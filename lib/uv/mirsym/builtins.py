"""Summaries for std / environment callees (DESIGN §2 E1). Each handler gets a CallCtx and returns a value,
Panic(site), Inlined() or NotImplemented (fall through to the next handler)."""
import re
import z3
from .values import *
from .engine import Panic, Inlined, Unsupported, UnknownCallee, Frame, _base_name, parse_place


def install(eng):
    H = []

    def on(pattern):
        def deco(f):
            H.append((re.compile(pattern), f))
            return f
        return deco

    def mk_enum(enum, variant, *vals):
        a = Adt(enum, eng.variant_index(enum, variant))
        for i, v in enumerate(vals):
            a.fields[(variant, i)] = Cell(v, None, f"{variant}.{i}")
        return a

    eng.mk_enum = mk_enum

    def as_adt(call, v, want="adt"):
        v = call.deref(v, want)
        return v

    # ---------------------------------------------------------------- panics
    @on(r"(^|::)panic_fmt$|(^|::)begin_panic$|panic_display|(^|::)panic$|panic_nounwind|panic_cannot_unwind|unwrap_failed$|expect_failed$|panic_explicit")
    def _panic(call):
        msg = ""
        for a in call.argv:
            if isinstance(a, Adt) and a.tag and a.tag[0] == "fmt":
                msg = a.tag[1]
            elif isinstance(a, Str):
                msg = a.s
        call.m.event("panic", call.fr.fn.short, msg)
        return Panic(f"{call.fr.fn.short}: {msg[:300]}")

    # ---------------------------------------------------------------- formatting (opaque, but keep templates)
    @on(r"Arguments::from_str$|Arguments::new_const$")
    def _args_const(call):
        a = Adt("Arguments", None)
        s = call.argv[0]
        if isinstance(s, Ref):
            s = s.cell.val
        a.tag = ("fmt", s.s if isinstance(s, Str) else "?", ())
        return a

    @on(r"Arguments::new$|Arguments::new_v1$|Arguments::new_v1_formatted$")
    def _args_new(call):
        a = Adt("Arguments", None)
        tmpl = call.argv[0]
        if isinstance(tmpl, Ref):
            tmpl = tmpl.cell.val
        ops = ()
        arr = call.argv[1] if len(call.argv) > 1 else None
        if isinstance(arr, Ref) and isinstance(arr.cell.val, Adt):
            ops = tuple(getattr(c.val, "tag", None) for _, c in sorted(arr.cell.val.fields.items(), key=lambda kv: kv[0][1]))
        a.tag = ("fmt", tmpl.s if isinstance(tmpl, Str) else "?", ops)
        call.m.event("format_args", a.tag[1], ops)
        return a

    @on(r"rt::Argument::new_(display|debug|lower_hex|upper_hex)$")
    def _arg_new(call):
        a = Adt("fmt::Argument", None)
        v = call.argv[0]
        what = v.cell.name if isinstance(v, Ref) else "?"
        # follow one more level of reference for `&&T`
        inner = v
        hops = 0
        while isinstance(inner, Ref) and isinstance(inner.cell.val, Ref) and hops < 3:
            inner = inner.cell.val
            what = inner.cell.name
            hops += 1
        a.tag = ("operand", what, call.callee.split("::")[-1])
        return a

    @on(r"(^|::)fmt::format$|^format$|(^|::)must_use$")
    def _format(call):
        v = call.argv[0]
        if call.norm.endswith("must_use"):
            return v
        s = Adt("String", None)
        s.tag = ("formatted",) + (v.tag[1:] if isinstance(v, Adt) and v.tag else ())
        return s

    # ---------------------------------------------------------------- thread / Arc environment
    @on(r"(^|::)panicking$")
    def _panicking(call):
        call.m.event("env", "panicking")
        return Bool(eng.named_bool("env.panicking"))

    @on(r"Arc::strong_count$|Rc::strong_count$")
    def _strong(call):
        v = eng.named("env.strong_count", 64)
        call.m.pc.append(z3.UGE(v, 1))
        call.m.event("env", "strong_count")
        return Int(v, 64, False)

    @on(r"(^|::)thread::current$|^current$")
    def _current(call):
        a = Adt("Thread", None)
        a.tag = ("current_thread",)
        return a

    @on(r"Thread::id$")
    def _tid(call):
        a = Adt("ThreadId", None)
        a.tag = ("current_thread_id",)
        return a

    @on(r"<ThreadId as PartialEq>::(ne|eq)$")
    def _tid_ne(call):
        call.m.event("env", "thread_cmp")
        other = eng.named_bool("env.other_thread")
        return Bool(other if call.norm.endswith("ne") else z3.Not(other))

    # ---------------------------------------------------------------- smart pointers / deref
    @on(r"<(&mut |&)*(Arc|Rc|Box|MutexGuard|Pin) as (Deref|DerefMut|AsRef|AsMut|Borrow)>::(deref|deref_mut|as_ref|as_mut|borrow)$")
    def _sp_deref(call):
        v = call.argv[0]
        inner = call.deref(v, "ref")
        if isinstance(inner, Ref):
            return Ref(inner.cell)
        raise Unsupported(f"deref of smart pointer holding {inner!r}")

    @on(r"<(Arc|Rc) as Clone>::clone$")
    def _arc_clone(call):
        inner = call.deref(call.argv[0], "ref")
        call.m.event("arc_clone")
        return inner

    @on(r"^(Arc|Rc|Box|std::boxed::Box|Pin)::new$|boxed::Box::new$")
    def _box_new(call):
        kind = "box" if "Box" in call.norm else "arc"
        return Ref(Cell(call.argv[0], None, f"{kind}#{next(eng.fresh_n)}"), kind)

    @on(r"Box::new_uninit$")
    def _box_uninit(call):
        return Ref(Cell(Adt("MaybeUninit", None), None, f"box#{next(eng.fresh_n)}"), "box")

    @on(r"box_assume_init_into_vec_unsafe$")
    def _box_into_vec(call):
        b = call.argv[0]
        mu = eng.force(b.cell, "adt")
        c = mu
        for key in ((None, 1), (None, 0), (None, 0)):
            c = c.fields[key].val
        items = [cell for _, cell in sorted(c.fields.items(), key=lambda kv: kv[0][1])]
        return VecVal(None, items, "Vec")

    @on(r"<(Vec|String) as (Deref|DerefMut|AsRef|Borrow)>::(deref|deref_mut|as_ref|borrow)$|Vec::as_slice$|Vec::as_mut_slice$")
    def _vec_deref(call):
        return call.argv[0]

    # ---------------------------------------------------------------- mem
    @on(r"(^|::)mem::drop$|^drop$")
    def _mem_drop(call):
        call.m.event("drop_call", call.fr.fn.short, call.args_s[0], call.callee)
        return UNIT

    @on(r"(^|::)mem::take$|^take$")
    def _mem_take(call):
        r = call.argv[0]
        old = eng.force(r.cell)
        call.m.event("mem_take", r.cell.name)
        r.cell.val = Opaque(r.cell.ty or "?", f"default#{next(eng.fresh_n)}")
        return old

    @on(r"(^|::)mem::swap$|^swap$")
    def _mem_swap(call):
        a, b = call.argv
        eng.force(a.cell)
        eng.force(b.cell)
        a.cell.val, b.cell.val = b.cell.val, a.cell.val
        return UNIT

    @on(r"(^|::)mem::replace$")
    def _mem_replace(call):
        r, new = call.argv
        old = eng.force(r.cell)
        r.cell.val = new
        return old

    @on(r"OnceCell::take$")
    def _once_take(call):
        r = call.argv[0]
        call.m.event("oncecell_take", r.cell.name)
        old = Opaque(call.ret_ty, f"taken:{r.cell.name}")
        return old

    # OnceCell with an explicit content model (used when the harness builds the cell: Adt("OnceCell") with field ("cell", 0)
    # holding an Option); cells that were lazily created by field access keep the coarse `take` summary above
    def once_slot(call, r):
        oc = call.deref(r, "adt") if isinstance(r, Ref) else r
        if not isinstance(oc, Adt) or ("cell", 0) not in oc.fields:
            return None
        return oc.fields[("cell", 0)]

    @on(r"OnceCell::get_or_init$")
    def _once_get_or_init(call):
        slot = once_slot(call, call.argv[0])
        if slot is None:
            return NotImplemented
        opt = eng.force(slot, "adt")
        k = discr_choice(call, opt, ("once_goi", call.fr.bb))
        if k == 1:
            call.m.event("oncecell_reuse")
            return Ref(eng.field_cell(opt, ("Some", 0), None, "once.value"))
        r = call_closure(call, call.argv[1], [], post=("once_init", slot))
        if r is None:
            raise UnknownCallee(call.norm, "opaque closure")
        return r

    @on(r"OnceCell::get_mut$|OnceCell::get$")
    def _once_get(call):
        slot = once_slot(call, call.argv[0])
        if slot is None:
            return NotImplemented
        opt = eng.force(slot, "adt")
        k = discr_choice(call, opt, ("once_get", call.fr.bb))
        if k == 0:
            return mk_enum("Option", "None")
        return mk_enum("Option", "Some", Ref(eng.field_cell(opt, ("Some", 0), None, "once.value")))

    @on(r"OnceCell::with_value$|OnceCell::from$")
    def _once_with_value(call):
        a = Adt("OnceCell", None)
        a.fields[("cell", 0)] = Cell(mk_enum("Option", "Some", call.argv[0]), None, "once")
        call.m.event("oncecell_new_with_value")
        return a

    @on(r"(^|::)mem::forget$|^forget$|ManuallyDrop::new$")
    def _forget(call):
        v = call.argv[0]
        call.m.event("forget", getattr(getattr(v, "lazy", None), "name", None) or type(v).__name__)
        return UNIT if not call.norm.endswith("new") else v

    # ---------------------------------------------------------------- locks (trusted: an atomic block)
    @on(r"Mutex::lock$")
    def _mutex_lock(call):
        mx = call.deref(call.argv[0], "adt")
        if not isinstance(mx, Adt):
            raise Unsupported(f"lock of {mx!r}")
        data = eng.field_cell(mx, ("mutex", 0), None, call.argv[0].cell.name + ".data")
        call.m.event("lock", call.argv[0].cell.name)
        g = Ref(data, "guard")
        if "spin" in call.callee:
            return g
        return mk_enum("Result", "Ok", g)

    @on(r"Mutex::new$")
    def _mutex_new(call):
        a = Adt("Mutex", None)
        a.fields[("mutex", 0)] = Cell(call.argv[0], None, f"mutex#{next(eng.fresh_n)}.data")
        return a

    @on(r"RefCell::borrow_mut$")
    def _refcell_bm(call):
        mx = call.deref(call.argv[0], "adt")
        data = eng.field_cell(mx, ("mutex", 0), None, call.argv[0].cell.name + ".data")
        return Ref(data, "guard")

    # ---------------------------------------------------------------- atomics
    def atomic_cell(call, r):
        a = call.deref(r, "adt")
        if isinstance(a, Int):
            return r.cell
        if not isinstance(a, Adt):
            raise Unsupported(f"atomic over {a!r}")
        return eng.field_cell(a, ("atomic", 0), "usize", r.cell.name + ".v")

    eng.atomic_cell = atomic_cell

    def traced(call, op, c, *exprs):
        """atomic-trace mode (C10): the value read is a fresh register, the step is recorded with its operand expressions;
        the cell's content is NOT tracked (another thread may have changed it)."""
        rd = eng.fresh(f"rd.{op}")
        call.m.event("atomic", op, c.name, rd, tuple(exprs))
        return Int(rd, 64, False)

    @on(r"Atomic(Usize)?::load$")
    def _at_load(call):
        c = atomic_cell(call, call.argv[0])
        if getattr(eng, "atomic_trace", False):
            return traced(call, "load", c)
        v = eng.force(c, "int")
        call.m.event("atomic", "load", c.name)
        return v

    @on(r"Atomic(Usize)?::store$")
    def _at_store(call):
        c = atomic_cell(call, call.argv[0])
        if getattr(eng, "atomic_trace", False):
            traced(call, "store", c, call.argv[1].e)
            return UNIT
        c.val = call.argv[1]
        call.m.event("atomic", "store", c.name)
        return UNIT

    @on(r"Atomic(Usize)?::fetch_(add|sub)$")
    def _at_fa(call):
        c = atomic_cell(call, call.argv[0])
        op = call.norm.split("::")[-1]
        if getattr(eng, "atomic_trace", False):
            return traced(call, op, c, call.argv[1].e)
        old = eng.force(c, "int")
        c.val = Int(old.e + call.argv[1].e if op == "fetch_add" else old.e - call.argv[1].e, 64, False)
        call.m.event("atomic", op, c.name)
        return old

    @on(r"Atomic(Usize)?::(compare_exchange|compare_exchange_weak)$")
    def _at_cas(call):
        c = atomic_cell(call, call.argv[0])
        if getattr(eng, "atomic_trace", False):
            rd = traced(call, "cas", c, call.argv[1].e, call.argv[2].e)
            okb = eng.fresh_bool("cas.ok")
            call.m.event("cas_result", str(rd.e), okb)
            k = eng.decide(call.m, ("cas", call.fr.bb, len(call.m.trace)), [okb, z3.Not(okb)])
            return mk_enum("Result", "Ok" if k == 0 else "Err", rd)
        old = eng.force(c, "int")
        k = eng.decide(call.m, ("cas", call.fr.bb), [old.e == call.argv[1].e, old.e != call.argv[1].e])
        if k == 0:
            c.val = call.argv[2]
            return mk_enum("Result", "Ok", old)
        return mk_enum("Result", "Err", old)

    @on(r"Atomic(Usize)?::swap$")
    def _at_swap(call):
        c = atomic_cell(call, call.argv[0])
        if getattr(eng, "atomic_trace", False):
            return traced(call, "swap", c, call.argv[1].e)
        old = eng.force(c, "int")
        c.val = call.argv[1]
        return old

    @on(r"(^|::)(usize|num)::(saturating_add|wrapping_add|saturating_sub|wrapping_sub)$")
    def _int_arith(call):
        a, b = call.argv
        name = call.norm.split("::")[-1]
        if name == "wrapping_add":
            return Int(a.e + b.e, 64, False)
        if name == "wrapping_sub":
            return Int(a.e - b.e, 64, False)
        if name == "saturating_add":
            return Int(z3.If(z3.ULT(a.e + b.e, a.e), z3.BitVecVal(2 ** 64 - 1, 64), a.e + b.e), 64, False)     # unsigned overflow <=> the wrapped sum is below an operand (form that narrow() can rebuild)
        return Int(z3.If(z3.UGE(a.e, b.e), a.e - b.e, z3.BitVecVal(0, 64)), 64, False)

    @on(r"(<usize as (core::cmp::|std::cmp::)?Ord>|(^|::)cmp|(^|::)usize)::(max|min)$")
    def _int_minmax(call):
        a, b = call.argv[0], call.argv[1]
        if call.norm.endswith("max"):
            return Int(z3.If(z3.UGE(a.e, b.e), a.e, b.e), 64, False)
        return Int(z3.If(z3.ULE(a.e, b.e), a.e, b.e), 64, False)

    @on(r"Atomic(Usize)?::new$")
    def _at_new(call):
        a = Adt("Atomic", None)
        a.fields[("atomic", 0)] = Cell(call.argv[0], "usize", f"atomic#{next(eng.fresh_n)}")
        return a

    # ---------------------------------------------------------------- Option / Result
    def discr_choice(call, adt, key, n=2):
        d = eng.discr_of(adt)
        return eng.decide(call.m, key, [d.e == i for i in range(n)])

    @on(r"^Option::take$")
    def _opt_take(call):
        r = call.argv[0]
        old = eng.force(r.cell, "adt")
        r.cell.val = mk_enum("Option", "None")
        return old

    @on(r"^Option::(is_none|is_some)$|^Result::(is_ok|is_err)$")
    def _is_x(call):
        a = as_adt(call, call.argv[0])
        d = eng.discr_of(a)
        want = 0 if call.norm.endswith(("is_none", "is_ok")) else 1
        return Bool(d.e == want)

    @on(r"^Option::(unwrap|expect)$|^Result::(unwrap|expect)$")
    def _unwrap(call):
        a = call.argv[0]
        if not isinstance(a, Adt):
            raise Unsupported(f"unwrap of {a!r}")
        is_opt = call.norm.startswith("Option")
        k = discr_choice(call, a, ("unwrap", call.fr.bb))
        good = 1 if is_opt else 0
        if k == good:
            variant = "Some" if is_opt else "Ok"
            return eng.force(eng.field_cell(a, (variant, 0), None, "unwrapped"))
        msg = call.argv[1].s if len(call.argv) > 1 and isinstance(call.argv[1], Str) else "unwrap on None/Err"
        call.m.event("panic", call.fr.fn.short, msg)
        return Panic(f"{call.fr.fn.short}: {msg}")

    @on(r"^Option::unwrap_or$|^Result::unwrap_or$")
    def _unwrap_or(call):
        a = call.argv[0]
        is_opt = call.norm.startswith("Option")
        k = discr_choice(call, a, ("unwrap_or", call.fr.bb))
        good = 1 if is_opt else 0
        if k == good:
            return eng.force(eng.field_cell(a, ("Some" if is_opt else "Ok", 0), None, "unwrapped"))
        return call.argv[1]

    @on(r"^<Result as Try>::branch$")
    def _res_branch(call):
        a = call.argv[0]
        k = discr_choice(call, a, ("branch", call.fr.bb))
        if k == 0:
            return mk_enum("ControlFlow", "Continue", eng.force(eng.field_cell(a, ("Ok", 0), None, "ok")))
        return mk_enum("ControlFlow", "Break", mk_enum("Result", "Err", eng.force(eng.field_cell(a, ("Err", 0), None, "err"))))

    @on(r"^<Option as Try>::branch$")
    def _opt_branch(call):
        a = call.argv[0]
        k = discr_choice(call, a, ("branch", call.fr.bb))
        if k == 1:
            return mk_enum("ControlFlow", "Continue", eng.force(eng.field_cell(a, ("Some", 0), None, "some")))
        return mk_enum("ControlFlow", "Break", mk_enum("Option", "None"))

    @on(r"^<(Result|Option) as FromResidual>::from_residual$")
    def _from_residual(call):
        return call.argv[0]

    # combinators taking closures: run the closure, then wrap (continuation on the frame)
    def call_closure(call, f, args, post=None):
        """f: closure Adt | FnItem. args: list of values. Pushes a frame; result handled by `post`."""
        fn = None
        if isinstance(f, Ref):
            f = eng.force(f.cell)
        if isinstance(f, Adt) and isinstance(f.ty, str) and f.ty.startswith("{closure@"):
            fn = eng.find_closure(f.ty, call.m)
            if fn is None:
                raise UnknownCallee("closure body " + f.ty)
            p0 = fn.params[0][1]
            first = Ref(Cell(f, None, "closure")) if p0.startswith("&") else f
            argv = [first] + list(args)
        elif isinstance(f, FnItem):
            fn = eng.resolve(f.name, __import__("uv.mirsym.engine", fromlist=["x"]).normalise_callee(f.name), args)
            if fn is None:
                # std function item: emulate a call through the handler table
                raise UnknownCallee("fn item " + f.name)
            argv = list(args)
        else:
            return None
        r = call.inline(fn, argv)
        call.m.frames[-1].note = post
        return r

    eng.call_closure = call_closure

    @on(r"^Option::ok_or_else$")
    def _ok_or_else(call):
        a = call.argv[0]
        k = discr_choice(call, a, ("ok_or_else", call.fr.bb))
        if k == 1:
            return mk_enum("Result", "Ok", eng.force(eng.field_cell(a, ("Some", 0), None, "some")))
        r = call_closure(call, call.argv[1], [], post=("wrap", "Result", "Err"))
        if r is None:
            raise UnknownCallee(call.norm, "opaque closure")
        return r

    @on(r"^Option::unwrap_or_default$|^Result::unwrap_or_default$")
    def _unwrap_or_default(call):
        a = call.argv[0]
        is_opt = call.norm.startswith("Option")
        k = discr_choice(call, a, ("unwrap_or_default", call.fr.bb))
        if k == (1 if is_opt else 0):
            return eng.force(eng.field_cell(a, ("Some" if is_opt else "Ok", 0), None, "payload"))
        d = Adt(call.ret_ty or "Default", None)
        d.tag = ("default_value",)
        return d

    @on(r"^Result::unwrap_or_else$|^Option::unwrap_or_else$")
    def _unwrap_or_else(call):
        a = call.argv[0]
        is_opt = call.norm.startswith("Option")
        k = discr_choice(call, a, ("unwrap_or_else", call.fr.bb))
        good = 1 if is_opt else 0
        if k == good:
            return eng.force(eng.field_cell(a, ("Some" if is_opt else "Ok", 0), None, "payload"))
        args = [] if is_opt else [eng.force(eng.field_cell(a, ("Err", 0), None, "err"))]
        r = call_closure(call, call.argv[1], args)
        if r is None:
            raise UnknownCallee(call.norm, "opaque closure")
        return r

    @on(r"^Result::map_err$|^Result::map$|^Option::map$")
    def _map(call):
        a = call.argv[0]
        is_opt = call.norm.startswith("Option")
        enum = "Option" if is_opt else "Result"
        k = discr_choice(call, a, ("map", call.fr.bb))
        if is_opt:
            apply_on, variant, other = 1, "Some", "None"
        elif call.norm.endswith("map_err"):
            apply_on, variant, other = 1, "Err", "Ok"
        else:
            apply_on, variant, other = 0, "Ok", "Err"
        if k != apply_on:
            if is_opt:
                return mk_enum("Option", "None")
            return mk_enum("Result", other, eng.force(eng.field_cell(a, (other, 0), None, other)))
        payload = eng.force(eng.field_cell(a, (variant, 0), None, variant))
        f_ = call.argv[1]
        if isinstance(f_, FnItem) and re.search(r"ToString>::to_string$|ToString::to_string$", f_.name):
            sv = Adt("String", None)
            who = payload.cell.name if isinstance(payload, Ref) else "?"
            sv.tag = ("to_string_of", who)
            call.m.event("to_string", who)
            return mk_enum(enum, variant, sv)
        r = call_closure(call, call.argv[1], [payload], post=("wrap", enum, variant))
        if r is None:
            raise UnknownCallee(call.norm, "opaque closure")
        return r

    # ---------------------------------------------------------------- closures through Fn traits
    @on(r"as Fn(Once|Mut)?>::call(_once|_mut)?$")
    def _fn_call(call):
        f = call.argv[0]
        tup = call.argv[1] if len(call.argv) > 1 else UNIT
        args = []
        if isinstance(tup, Adt):
            args = [eng.force(c) for _, c in sorted(tup.fields.items(), key=lambda kv: kv[0][1])]
        r = call_closure(call, f, args)
        if r is not None:
            return r
        hook = getattr(eng, "callback_hook", None)
        if hook is not None:
            out = hook(call, f, args)
            if out is not NotImplemented:
                return out
        return NotImplemented

    # ---------------------------------------------------------------- Vec
    def vec_of(call, v, want="vec"):
        cell = None
        if isinstance(v, Ref):
            cell = v.cell
            v = eng.force(cell, want)
            if isinstance(v, Ref):
                cell = v.cell
                v = eng.force(cell, want)
        if isinstance(v, Adt) and v.lazy is not None and not v.fields and v.discr is None and cell is not None:
            # lazily created object of a generic/unknown type that is used as a Vec: an arbitrary Vec
            v = VecVal(Int(eng.named(v.lazy.name + ".len", 64)), [], "Vec")
            cell.val = v
        if not isinstance(v, VecVal):
            raise Unsupported(f"expected Vec, got {v!r}")
        return v

    eng.vec_of = vec_of

    @on(r"^<Vec as Index>::index$|^<\[slice\] as Index>::index$|^<Vec as IndexMut>::index_mut$")
    def _vec_index(call):
        v = vec_of(call, call.argv[0])
        i = eng._concrete(call.argv[1]) if not isinstance(call.argv[1], Adt) else None
        if i is None:
            raise Unsupported("indexing with a symbolic index / range")
        if v.base is not None:
            # a Vec whose first `base` elements are unknown (arbitrary pre-state): element 0 is the first pushed element
            # iff the prefix is empty, otherwise an element of the prefix
            if i != 0:
                raise Unsupported("indexing a Vec with unknown prefix beyond element 0")
            k = eng.decide(call.m, ("vec_index_prefix", call.fr.bb), [v.base.e == 0, v.base.e != 0])
            if k == 0:
                if not v.items:
                    call.m.event("panic", call.fr.fn.short, "index out of bounds")
                    return Panic(f"{call.fr.fn.short}: index out of bounds")
                return Ref(v.items[0])
            pre = Opaque("?", "earlier_element_of_the_list")
            return Ref(Cell(pre, None, "prefix[0]"))
        if i >= len(v.items):
            call.m.event("panic", call.fr.fn.short, "index out of bounds")
            return Panic(f"{call.fr.fn.short}: index out of bounds")
        return Ref(v.items[i])

    @on(r"^Pin::get_mut$|^Pin::into_inner$|^Pin::get_ref$|^Pin::as_mut$")
    def _pin_inner(call):
        v = call.argv[0]
        if isinstance(v, Ref) and call.norm.endswith("as_mut"):
            v = v.cell.val
        if isinstance(v, Adt) and v.ty == "Pin" and v.fields:
            inner = next(iter(v.fields.values())).val
            return v if call.norm.endswith("as_mut") else inner
        return v

    @on(r"^Pin::new$|^Pin::new_unchecked$")
    def _pin_new(call):
        a = Adt("Pin", None)
        a.fields[(None, 0)] = Cell(call.argv[0], None, "pointer")
        return a

    @on(r"^<\[slice\]>::first$|slice::(.*::)?first$|^<\[slice\]>::last$|slice::(.*::)?last$")
    def _slice_first_last(call):
        v = vec_of(call, call.argv[0])
        last = call.norm.endswith("last")
        if last:
            if v.items:
                return mk_enum("Option", "Some", Ref(v.items[-1]))
            if v.base is None:
                return mk_enum("Option", "None")
            raise Unsupported("last() of a Vec that is only an unknown prefix")
        if v.base is not None:
            k = eng.decide(call.m, ("slice_first_prefix", call.fr.bb), [v.base.e == 0, v.base.e != 0])
            if k == 1:
                return mk_enum("Option", "Some", Ref(Cell(Opaque("?", "earlier_element_of_the_list"), None, "prefix[0]")))
        if v.items:
            return mk_enum("Option", "Some", Ref(v.items[0]))
        return mk_enum("Option", "None")

    @on(r"^(Rc|Arc)::weak_count$")
    def _weak_count(call):
        w = eng.named("rc.weak_count", 64)
        call.m.event("env", "weak_count")
        return Int(w, 64, False)

    @on(r"^Vec::new$|^Vec::with_capacity$")
    def _vec_new(call):
        return VecVal(None, [], "Vec")

    @on(r"^Vec::push$")
    def _vec_push(call):
        v = vec_of(call, call.argv[0])
        v.items.append(Cell(call.argv[1], None, f"vec[{len(v.items)}]"))
        call.m.event("vec_push", call.argv[0].cell.name if isinstance(call.argv[0], Ref) else "?")
        return UNIT

    @on(r"^Vec::is_empty$|^<\[slice\]>::is_empty$|slice::(.*::)?is_empty$")
    def _vec_is_empty(call):
        v = vec_of(call, call.argv[0])
        return Bool(eng.vec_len(v).e == 0)

    @on(r"^Vec::len$|slice::(.*::)?len$")
    def _vec_len(call):
        return eng.vec_len(vec_of(call, call.argv[0]))

    @on(r"^Vec::(swap_remove|remove)$")
    def _vec_remove(call):
        v = vec_of(call, call.argv[0])
        i = eng._concrete(call.argv[1])
        if v.base is not None or i is None:
            raise Unsupported("remove on a Vec with unknown prefix / symbolic index")
        if i >= len(v.items):
            return Panic(f"{call.fr.fn.short}: removal index (is {i}) should be < len (is {len(v.items)})")
        item = v.items[i]
        if call.norm.endswith("swap_remove"):
            last = v.items.pop()
            if i < len(v.items):
                v.items[i] = last
        else:
            del v.items[i]
        return eng.force(item)

    @on(r"^Vec::pop$")
    def _vec_pop(call):
        v = vec_of(call, call.argv[0])
        if v.items:
            return mk_enum("Option", "Some", eng.force(v.items.pop()))
        if v.base is None:
            return mk_enum("Option", "None")
        raise Unsupported("pop of opaque vec")

    @on(r"^Vec::insert$")
    def _vec_insert(call):
        v = vec_of(call, call.argv[0])
        i = eng._concrete(call.argv[1])
        if v.base is not None or i is None or i > len(v.items):
            raise Unsupported("insert on a Vec with unknown prefix / symbolic index")
        v.items.insert(i, Cell(call.argv[2], None, f"vec[{i}]"))
        return UNIT

    @on(r"^<Vec as Clone>::clone$")
    def _vec_clone(call):
        v = vec_of(call, call.argv[0])
        n = VecVal(v.base, list(v.items), v.ty)
        n.tag = ("clone_of", call.argv[0].cell.name if isinstance(call.argv[0], Ref) else "?")
        return n

    @on(r"^Vec::last_mut$|slice::(.*::)?last_mut$")
    def _vec_last_mut(call):
        v = vec_of(call, call.argv[0])
        if v.items:
            return mk_enum("Option", "Some", Ref(v.items[-1]))
        if v.base is None:
            return mk_enum("Option", "None")
        raise Unsupported("last_mut of opaque vec")

    @on(r"^<Vec as IntoIterator>::into_iter$")
    def _vec_into_iter(call):
        v = call.argv[0]
        if not isinstance(v, VecVal):
            raise Unsupported(f"into_iter of {v!r}")
        if v.base is not None:
            raise Unsupported("iteration over a Vec with unknown prefix (harness must fix the length)")
        return IterVal(list(v.items), "vec_into_iter")

    @on(r"slice::(.*::)?iter$|^<\[slice\]>::iter$|^<&Vec as IntoIterator>::into_iter$|^<&\[slice\] as IntoIterator>::into_iter$")
    def _slice_iter(call):
        v = vec_of(call, call.argv[0])
        if v.base is not None:
            return IterVal(list(v.items), "slice_iter", "unknown_prefix")
        return IterVal(list(v.items), "slice_iter")

    @on(r"^<.* as IntoIterator>::into_iter$")
    def _iter_identity(call):
        v = call.argv[0]
        if isinstance(v, IterVal):
            return v
        return NotImplemented

    # ---------------------------------------------------------------- iterator pipelines (lazy adaptors + closures)
    @on(r"Iterator>::(enumerate|map|filter_map|filter)$|^Iter::(enumerate|map|filter_map|filter)$|^IntoIter::(enumerate|map|filter_map|filter)$")
    def _adaptor(call):
        it = call.argv[0]
        if not isinstance(it, IterVal):
            return NotImplemented
        name = call.norm.split("::")[-1]
        it.stages.append((name, call.argv[1] if len(call.argv) > 1 else None))
        return it

    @on(r"Iterator>::(take|skip)$|^(Iter|IntoIter|Enumerate|Map)::(take|skip)$")
    def _take_skip(call):
        it = call.argv[0]
        if not isinstance(it, IterVal):
            return NotImplemented
        n = eng._concrete(call.argv[1])
        if n is None or any(st[0] in ("filter", "filter_map") for st in it.stages) or it.extra == "unknown_prefix":
            raise Unsupported("take/skip with a symbolic count or after a filtering adaptor")
        if call.norm.endswith("take"):
            it.items = it.items[:it.pos + n]
        else:
            it.pos += n
            if any(st[0] == "enumerate" for st in it.stages):
                it.count += n
        return it

    def source_value(it, item):
        kind = it.kind
        if kind == "vec_into_iter":
            return eng.force(item)
        if kind == "slice_iter":
            return Ref(item)
        if kind == "map_iter":
            t = Adt("(tuple)", None)
            t.fields[(None, 0)] = Cell(Ref(item[0]), None, "k")
            t.fields[(None, 1)] = Cell(Ref(item[1]), None, "v")
            return t
        if kind == "map_values":
            return Ref(item[1])
        raise Unsupported("iterator kind " + kind)

    def tuple2(a, b):
        t = Adt("(tuple)", None)
        t.fields[(None, 0)] = Cell(a, None, "t.0")
        t.fields[(None, 1)] = Cell(b, None, "t.1")
        return t

    class Drive:
        """Continuation of a terminal iterator operation across closure calls (deep-copied with the machine)."""

        def __init__(self, it, consumer, closure, dest, ret_bb, is_result=False):
            self.it = it
            self.consumer = consumer
            self.closure = closure
            self.dest = dest
            self.ret_bb = ret_bb
            self.stage = 0
            self.cur = None
            self.phase = "pull"
            self.acc = []
            self.is_result = is_result
            self.tick = 0
            self.accv = None
            self.try_ty = None

    def deliver(m, drv, value):
        fr = m.frames[-1]
        c = eng.place_cell(m, fr, drv.dest)
        c.val = value
        if drv.ret_bb is None:
            m.outcome = ("panic", "diverging iterator op")
            raise __import__("uv.mirsym.engine", fromlist=["_Stop"])._Stop()
        eng.goto(m, fr, drv.ret_bb)

    def push_closure(m, drv, f, args):
        """Call closure f(args...) with the drive as the continuation. Returns False when f is not a crate closure."""
        if isinstance(f, Ref):
            f = eng.force(f.cell)
        fn = None
        if isinstance(f, Adt) and isinstance(f.ty, str) and f.ty.startswith("{closure@"):
            fn = eng.find_closure(f.ty, m)
            if fn is None:
                raise UnknownCallee("closure body " + f.ty)
            p0 = fn.params[0][1]
            argv = [Ref(Cell(f, None, "closure")) if p0.startswith("&") else f] + list(args)
        elif isinstance(f, FnItem):
            norm = __import__("uv.mirsym.engine", fromlist=["normalise_callee"]).normalise_callee(f.name)
            fn = eng.resolve(f.name, norm, args)
            if fn is None:
                raise UnknownCallee("fn item " + f.name)
            argv = list(args)
        else:
            raise UnknownCallee("opaque closure in iterator pipeline")
        nf = Frame(fn)
        for (loc, ty), v in zip(fn.params, argv):
            nf.locals[loc] = Cell(v, ty, f"{fn.short}:{loc}")
        nf.dest = None
        nf.ret_bb = None
        nf.note = ("iterdrive", drv)
        m.frames.append(nf)
        m.event("call", fn.raw_name)
        return True

    def drive(m, drv, incoming=None):
        """Run the pipeline until it needs a closure (frame pushed; returns 'await') or finishes (delivered)."""
        it = drv.it
        while True:
            drv.tick += 1
            if drv.tick > 400:
                raise Unsupported("iterator pipeline too long")
            if incoming is not None:
                res, incoming = incoming[0], None
                if drv.phase == "stage":
                    name = it.stages[drv.stage][0]
                    if name == "map":
                        drv.cur = res
                        drv.stage += 1
                    elif name == "filter_map":
                        k = eng.decide(m, ("drv_fm", it.pos, drv.stage), [eng.discr_of(res).e == 0, eng.discr_of(res).e == 1])
                        if k == 0:
                            drv.phase = "pull"
                        else:
                            drv.cur = eng.force(eng.field_cell(res, ("Some", 0), None, "fm"))
                            drv.stage += 1
                    elif name == "filter":
                        k = eng.decide(m, ("drv_f", it.pos, drv.stage), [res.e, z3.Not(res.e)])
                        if k == 0:
                            drv.stage += 1
                        else:
                            drv.phase = "pull"
                elif drv.phase == "consume":
                    c = drv.consumer
                    if c in ("find", "any", "all", "position"):
                        k = eng.decide(m, ("drv_c", it.pos), [res.e, z3.Not(res.e)])
                        hit = (k == 0)
                        if c == "find" and hit:
                            return ("done", mk_enum("Option", "Some", drv.cur))
                        if c == "any" and hit:
                            return ("done", Bool(z3.BoolVal(True)))
                        if c == "all" and not hit:
                            return ("done", Bool(z3.BoolVal(False)))
                        if c == "position" and hit:
                            return ("done", mk_enum("Option", "Some", Int(z3.BitVecVal(len(drv.acc), 64), 64, False)))
                        drv.acc.append(None)
                        drv.phase = "pull"
                    elif c == "find_map":
                        k = eng.decide(m, ("drv_c", it.pos), [eng.discr_of(res).e == 0, eng.discr_of(res).e == 1])
                        if k == 1:
                            return ("done", res)
                        drv.phase = "pull"
                    elif c == "for_each":
                        drv.phase = "pull"
                    elif c in ("fold", "try_fold"):
                        if c == "fold":
                            drv.accv = res
                        else:
                            ty = res.ty if isinstance(res, Adt) else None
                            if ty not in ("Result", "Option"):
                                raise Unsupported(f"try_fold over {ty}")
                            drv.try_ty = ty
                            cont = eng.variant_index(ty, "Ok" if ty == "Result" else "Some")
                            d = eng.discr_of(res).e
                            k = eng.decide(m, ("drv_tf", it.pos), [d == cont, d != cont])
                            if k == 1:
                                return ("done", res)
                            drv.accv = eng.force(eng.field_cell(res, ("Ok" if ty == "Result" else "Some", 0), None, "acc"))
                        drv.phase = "pull"
                continue
            if drv.phase == "pull":
                if it.extra == "unknown_prefix":
                    raise Unsupported("stepping an iterator over a Vec with unknown prefix (harness must fix the length)")
                if it.pos >= len(it.items):
                    c = drv.consumer
                    if c in ("next", "find", "find_map", "position"):
                        return ("done", mk_enum("Option", "None"))
                    if c == "any":
                        return ("done", Bool(z3.BoolVal(False)))
                    if c == "all":
                        return ("done", Bool(z3.BoolVal(True)))
                    if c == "for_each":
                        return ("done", UNIT)
                    if c == "fold":
                        return ("done", drv.accv)
                    if c == "try_fold":
                        ty = drv.try_ty or "Result"
                        return ("done", mk_enum(ty, "Ok" if ty == "Result" else "Some", drv.accv))
                    if c == "collect":
                        v = VecVal(None, [Cell(x, None, f"collected[{i}]") for i, x in enumerate(drv.acc)], "Vec")
                        return ("done", mk_enum("Result", "Ok", v) if drv.is_result else v)
                    raise Unsupported("consumer " + c)
                item = it.items[it.pos]
                m.event("iter_next", it.kind, it.pos)
                it.pos += 1
                drv.cur = source_value(it, item)
                drv.stage = 0
                drv.phase = "stage"
            if drv.phase == "stage":
                if drv.stage >= len(it.stages):
                    drv.phase = "consume"
                else:
                    name, clo = it.stages[drv.stage]
                    if name == "enumerate":
                        drv.cur = tuple2(Int(z3.BitVecVal(it.count, 64), 64, False), drv.cur)
                        it.count += 1
                        drv.stage += 1
                        continue
                    arg = Ref(Cell(drv.cur, None, "item")) if name == "filter" else drv.cur
                    push_closure(m, drv, clo, [arg])
                    return ("await", None)
            if drv.phase == "consume":
                c = drv.consumer
                if c == "next":
                    drv.phase = "pull"
                    return ("done", mk_enum("Option", "Some", drv.cur))
                if c == "collect":
                    if drv.is_result:
                        k = eng.decide(m, ("drv_cr", it.pos), [eng.discr_of(drv.cur).e == 0, eng.discr_of(drv.cur).e == 1])
                        if k == 1:
                            return ("done", mk_enum("Result", "Err", eng.force(eng.field_cell(drv.cur, ("Err", 0), None, "e"))))
                        drv.acc.append(eng.force(eng.field_cell(drv.cur, ("Ok", 0), None, "ok")))
                    else:
                        drv.acc.append(drv.cur)
                    drv.phase = "pull"
                    continue
                if c in ("fold", "try_fold"):
                    push_closure(m, drv, drv.closure, [drv.accv, drv.cur])
                    return ("await", None)
                arg = Ref(Cell(drv.cur, None, "item")) if c == "find" else drv.cur
                push_closure(m, drv, drv.closure, [arg])
                return ("await", None)

    def on_drive_return(m, drv, val):
        """Called by Engine.do_return when a closure frame with an ('iterdrive', drv) note returns."""
        st, out = drive(m, drv, incoming=(val,))
        return st, out

    eng.on_drive_return = on_drive_return
    eng.drive_deliver = deliver

    def start_drive(call, consumer, closure=None):
        r = call.argv[0]
        it = r.cell.val if isinstance(r, Ref) else r
        if not isinstance(it, IterVal):
            return NotImplemented
        is_result = consumer == "collect" and "Result" in call.callee.split("collect", 1)[-1]
        drv = Drive(it, consumer, closure, call.dest, call.ret_bb, is_result)
        st, out = drive(call.m, drv)
        if st == "done":
            return out
        return Inlined()

    @on(r"as Iterator>::next$")
    def _iter_next(call):
        return start_drive(call, "next")

    @on(r"Iterator>::(find|find_map|any|all|position|for_each)$|^(Iter|IntoIter|Enumerate|Map|FilterMap|Filter)::(find|find_map|any|all|position|for_each)$")
    def _iter_terminal(call):
        r = call.argv[0]
        it = r.cell.val if isinstance(r, Ref) else r
        name = call.norm.split("::")[-1]
        if isinstance(it, IterVal) and it.extra == "unknown_prefix" and name in ("any", "all"):
            # over-approximation: the elements are arbitrary, so the closure's verdict over them is an unconstrained
            # boolean (extra behaviours only; every counterexample is replayed natively before it is reported)
            call.m.event("iter_any", call.norm)
            return Bool(eng.fresh_bool("any_over_elements"))
        return start_drive(call, name, call.argv[1])

    @on(r"Iterator>::peekable$|^(Iter|IntoIter|Map|Enumerate)::peekable$")
    def _peekable(call):
        it = call.argv[0]
        if not isinstance(it, IterVal):
            return NotImplemented
        return it

    @on(r"^Peekable::peek$")
    def _peek(call):
        r = call.argv[0]
        it = r.cell.val if isinstance(r, Ref) else r
        if not isinstance(it, IterVal):
            return NotImplemented
        if it.stages or it.extra == "unknown_prefix":
            raise Unsupported("peek through adaptors / unknown prefix")
        if it.pos >= len(it.items):
            return mk_enum("Option", "None")
        return mk_enum("Option", "Some", Ref(Cell(source_value(it, it.items[it.pos]), None, "peeked")))

    @on(r"^<\[slice\]>::split_at$|slice::(.*::)?split_at$")
    def _split_at(call):
        v = vec_of(call, call.argv[0])
        mid = eng._concrete(call.argv[1])
        if v.base is not None or mid is None:
            raise Unsupported("split_at with unknown prefix / symbolic mid")
        if mid > len(v.items):
            call.m.event("panic", call.fr.fn.short, "mid > len")
            return Panic(f"{call.fr.fn.short}: split_at: mid > len")
        t = Adt("(tuple)", None)
        t.fields[(None, 0)] = Cell(Ref(Cell(VecVal(None, v.items[:mid], "[T]"), None, "split.0")), None, "t.0")
        t.fields[(None, 1)] = Cell(Ref(Cell(VecVal(None, v.items[mid:], "[T]"), None, "split.1")), None, "t.1")
        return t

    def reverse_rest(it):
        if any(st[0] == "enumerate" for st in it.stages) or it.extra == "unknown_prefix":
            raise Unsupported("reversing an enumerated iterator / unknown prefix")
        it.items = it.items[:it.pos] + list(reversed(it.items[it.pos:]))

    @on(r"Iterator>::rev$|^(Iter|IntoIter|Map)::rev$")
    def _iter_rev(call):
        it = call.argv[0]
        if not isinstance(it, IterVal):
            return NotImplemented
        reverse_rest(it)
        return it

    @on(r"Iterator>::(fold|try_fold|rfold|try_rfold)$|^(Iter|IntoIter|Enumerate|Map|FilterMap|Filter)::(fold|try_fold|rfold|try_rfold)$")
    def _iter_fold(call):
        r = call.argv[0]
        it = r.cell.val if isinstance(r, Ref) else r
        if not isinstance(it, IterVal):
            return NotImplemented
        name = call.norm.split("::")[-1]
        if name in ("rfold", "try_rfold"):
            reverse_rest(it)
        cons = "try_fold" if name.startswith("try_") else "fold"
        is_try_result = "Result" in call.callee
        drv = Drive(it, cons, call.argv[2], call.dest, call.ret_bb, False)
        drv.accv = call.argv[1]
        drv.try_ty = "Result" if is_try_result else None
        st, out = drive(call.m, drv)
        if st == "done":
            return out
        return Inlined()

    @on(r"Iterator>::collect$|^(Iter|IntoIter|Enumerate|Map|FilterMap|Filter)::collect$")
    def _iter_collect(call):
        return start_drive(call, "collect")

    @on(r"^Option::transpose$")
    def _opt_transpose(call):
        a = call.argv[0]
        k = discr_choice(call, a, ("transpose", call.fr.bb))
        if k == 0:
            return mk_enum("Result", "Ok", mk_enum("Option", "None"))
        inner = eng.force(eng.field_cell(a, ("Some", 0), None, "some"))
        k2 = eng.decide(call.m, ("transpose2", call.fr.bb), [eng.discr_of(inner).e == 0, eng.discr_of(inner).e == 1])
        if k2 == 0:
            return mk_enum("Result", "Ok", mk_enum("Option", "Some", eng.force(eng.field_cell(inner, ("Ok", 0), None, "ok"))))
        return mk_enum("Result", "Err", eng.force(eng.field_cell(inner, ("Err", 0), None, "err")))

    @on(r"(^|::)mem::discriminant$|^discriminant$")
    def _mem_discr(call):
        v = call.deref(call.argv[0], "adt")
        a = Adt("Discriminant", None)
        a.fields[(None, 0)] = Cell(eng.discr_of(v), None, "discr")
        return a

    # ---------------------------------------------------------------- BTreeMap
    def map_of(call, v):
        v = call.deref(v, "adt")
        if isinstance(v, Ref):
            v = call.deref(v, "adt")
        if not isinstance(v, MapVal):
            raise Unsupported(f"expected a harness-built BTreeMap, got {v!r}")
        return v

    def key_e(k):
        if isinstance(k, Ref):
            k = eng.force(k.cell, "int")
        if isinstance(k, Int):
            return k.e
        raise Unsupported(f"map key {k!r}")

    @on(r"^BTreeMap::new$")
    def _map_new(call):
        return MapVal([], "BTreeMap")

    @on(r"^BTreeMap::get$")
    def _map_get(call):
        mp = map_of(call, call.argv[0])
        k = key_e(call.argv[1])
        conds = [key_e(Ref(kc)) == k for kc, _ in mp.entries]
        none = z3.And([z3.Not(c) for c in conds]) if conds else z3.BoolVal(True)
        ch = eng.decide(call.m, ("map_get", call.fr.bb), conds + [none])
        call.m.event("map_get", ch if ch < len(conds) else None)
        if ch == len(conds):
            return mk_enum("Option", "None")
        return mk_enum("Option", "Some", Ref(mp.entries[ch][1]))

    @on(r"^BTreeMap::entry$")
    def _map_entry(call):
        mp = map_of(call, call.argv[0])
        k = call.argv[1]
        ke = key_e(k)
        conds = [key_e(Ref(kc)) == ke for kc, _ in mp.entries]
        none = z3.And([z3.Not(c) for c in conds]) if conds else z3.BoolVal(True)
        ch = eng.decide(call.m, ("map_entry", call.fr.bb), conds + [none])
        e = Adt("EntryHandle", None)
        e.fields[(None, 0)] = Cell(call.argv[0], None, "map")
        if ch == len(conds):
            e.fields[(None, 1)] = Cell(k, None, "key")
            return mk_enum("Entry", "Vacant", e)
        e.fields[(None, 1)] = Cell(Int(z3.BitVecVal(ch, 64), 64, False), None, "idx")
        return mk_enum("Entry", "Occupied", e)

    @on(r"OccupiedEntry::(get|get_mut|into_mut)$")
    def _occ_get(call):
        e = call.deref(call.argv[0], "adt")
        mp = map_of(call, e.fields[(None, 0)].val)
        i = eng._concrete(e.fields[(None, 1)].val)
        return Ref(mp.entries[i][1])

    @on(r"VacantEntry::insert$")
    def _vac_insert(call):
        e = call.deref(call.argv[0], "adt")
        mp = map_of(call, e.fields[(None, 0)].val)
        kc = Cell(e.fields[(None, 1)].val, None, f"key{len(mp.entries)}")
        vc = Cell(call.argv[1], None, f"val{len(mp.entries)}")
        mp.entries.append((kc, vc))      # NB: list order = insertion order; BTreeMap order is by key (see DESIGN C18)
        call.m.event("map_insert", len(mp.entries) - 1)
        return Ref(vc)

    @on(r"^BTreeMap::iter$")
    def _map_iter(call):
        mp = map_of(call, call.argv[0])
        return IterVal(list(mp.entries), "map_iter")

    @on(r"^BTreeMap::values$")
    def _map_values(call):
        mp = map_of(call, call.argv[0])
        return IterVal(list(mp.entries), "map_values")

    # ---------------------------------------------------------------- misc
    @on(r"^<.* as (Into|From)>::(into|from)$")
    def _into(call):
        return call.argv[0]

    @on(r"^<.* as PartialEq>::(eq|ne)$")
    def _peq(call):
        a = call.deref(call.argv[0])
        b = call.deref(call.argv[1])
        if isinstance(a, Adt) and isinstance(b, Adt) and not a.fields and not b.fields:
            da, db = eng.discr_of(a), eng.discr_of(b)
            r = da.e == db.e
        elif isinstance(a, Int) and isinstance(b, Int):
            r = a.e == b.e
        elif isinstance(a, Bool) and isinstance(b, Bool):
            r = a.e == b.e
        else:
            return NotImplemented
        return Bool(r if call.norm.endswith("::eq") else z3.Not(r))

    @on(r"^<.* as ToString>::to_string$|^<str as ToOwned>::to_owned$|String::from$")
    def _to_string(call):
        s = Adt("String", None)
        v = call.argv[0]
        if isinstance(v, Ref):
            v = v.cell.val
        s.tag = ("string", v.s if isinstance(v, Str) else getattr(v, "tag", None))
        return s

    @on(r"^<Range as Default>::default$")
    def _range_default(call):
        a = Adt("Range", None)
        a.fields[(None, 0)] = Cell(Int(z3.BitVecVal(0, 64), 64, False), "usize", "range.start")
        a.fields[(None, 1)] = Cell(Int(z3.BitVecVal(0, 64), 64, False), "usize", "range.end")
        return a

    @on(r"^<.* as Default>::default$")
    def _default(call):
        if eng.resolve(call.callee, call.norm, call.argv) is not None:
            return NotImplemented        # the crate's own Default impl is executed from its MIR
        return Opaque(call.ret_ty, f"default#{next(eng.fresh_n)}")

    @on(r"PhantomData")
    def _phantom(call):
        return NotImplemented

    eng.handlers = H + eng.handlers
