"""Parser for rustc's `-Zunpretty=mir` text: functions, locals, basic blocks; places, operands, rvalues.

Everything is kept close to the text: statements are parsed lazily (and cached) by the executor.
"""
import re, os, hashlib

OPEN = "([{"
CLOSE = ")]}"


def split_top(s, sep=","):
    """Split at top-level `sep` (depth over () [] {} and <> — `->`/`=>` are not brackets)."""
    out, depth, cur, i, n = [], 0, [], 0, len(s)
    ang = 0
    instr = False
    while i < n:
        c = s[i]
        if instr:
            cur.append(c)
            if c == "\\" and i + 1 < n:
                cur.append(s[i + 1])
                i += 2
                continue
            if c == '"':
                instr = False
            i += 1
            continue
        if c == '"':
            instr = True
            cur.append(c)
        elif c in OPEN:
            depth += 1
            cur.append(c)
        elif c in CLOSE:
            depth -= 1
            cur.append(c)
        elif c == "<":
            # comparison operators do not appear inside MIR operand lists; treat as generic bracket
            ang += 1
            cur.append(c)
        elif c == ">":
            if i > 0 and s[i - 1] in "-=":
                cur.append(c)
            else:
                ang = max(0, ang - 1)
                cur.append(c)
        elif s.startswith(sep, i) and depth == 0 and ang == 0:
            out.append("".join(cur).strip())
            cur = []
            i += len(sep)
            continue
        else:
            cur.append(c)
        i += 1
    last = "".join(cur).strip()
    if last or out:
        out.append(last)
    return out


def find_top(s, needle, start=0):
    """Index of first top-level occurrence of needle (depth over ()[]{}<>), or -1."""
    depth = 0
    ang = 0
    i, n = start, len(s)
    instr = False
    while i < n:
        c = s[i]
        if instr:
            if c == "\\":
                i += 2
                continue
            if c == '"':
                instr = False
            i += 1
            continue
        if depth == 0 and ang == 0 and s.startswith(needle, i):
            return i
        if c == '"':
            instr = True
        elif c in OPEN:
            depth += 1
        elif c in CLOSE:
            depth -= 1
        elif c == "<":
            ang += 1
        elif c == ">" and not (i > 0 and s[i - 1] in "-="):
            ang = max(0, ang - 1)
        i += 1
    return -1


def match_paren(s, i):
    """s[i] is an opening bracket; return index of its partner."""
    depth = 0
    n = len(s)
    instr = False
    j = i
    while j < n:
        c = s[j]
        if instr:
            if c == "\\":
                j += 2
                continue
            if c == '"':
                instr = False
        elif c == '"':
            instr = True
        elif c in OPEN:
            depth += 1
        elif c in CLOSE:
            depth -= 1
            if depth == 0:
                return j
        j += 1
    raise ValueError("unbalanced: " + s[i:i + 80])


def strip_generics(path):
    """Remove every <...> group (turbofish and type args) from a path, bracket-aware; keeps `<impl at ..>`? no:
    callers pass callee names, where leading `<T as Trait>::m` is handled separately."""
    out = []
    depth = 0
    i = 0
    n = len(path)
    while i < n:
        c = path[i]
        if c == "<":
            depth += 1
        elif c == ">" and not (i > 0 and path[i - 1] in "-="):
            depth -= 1
        elif depth == 0:
            out.append(c)
        i += 1
    s = "".join(out)
    return re.sub(r"::(::)+", "::", s).strip(":")


class Block:
    __slots__ = ("id", "stmts", "term", "cleanup")

    def __init__(self, bid, cleanup):
        self.id = bid
        self.stmts = []
        self.term = None
        self.cleanup = cleanup


class Function:
    def __init__(self, raw_name, params, ret, line_no):
        self.raw_name = raw_name
        self.params = params          # [(local, type)]
        self.ret = ret
        self.locals = {}              # local -> type
        self.blocks = {}
        self.debug = {}               # source name -> local
        self.line_no = line_no
        self.text = []
        # derived
        self.impl_span = None         # (file, line) for `<impl at file:line:col: ..>`
        self.short = None             # last path segment (method / fn name, incl. {closure#k})
        self.module = None
        self.self_ty = None           # filled by index (from source impl line)
        self.trait = None
        self.closure_key = None       # "{closure@file:l:c: l:c}" of _1 for closure bodies

    def __repr__(self):
        return f"<fn {self.raw_name}>"

    def sha(self):
        return hashlib.sha256("\n".join(self.text).encode()).hexdigest()[:12]


_re_fn = re.compile(r"^fn (.*)$")
_re_let = re.compile(r"^\s+let (?:mut )?(_\d+): (.*);$")
_re_debug = re.compile(r"^\s+debug (\S+) => (.*);$")
_re_bb = re.compile(r"^\s+bb(\d+)( \(cleanup\))?: \{$")
_re_impl = re.compile(r"<impl at ([^:>]+):(\d+):(\d+): (\d+):(\d+)>")


def parse_mir(text):
    """Returns list of Function."""
    fns = []
    lines = text.split("\n")
    i, n = 0, len(lines)
    while i < n:
        line = lines[i]
        m = _re_fn.match(line)
        mc = re.match(r"^const (.*promoted\[\d+\]): (.*) = \{$", line)
        if mc:
            header = f"{mc.group(1)}() -> {mc.group(2)}"
        elif not m or not line.endswith("{"):
            i += 1
            continue
        else:
            header = m.group(1)[:-1].rstrip()
        # name(params) -> ret
        p = header.find("(")
        # `<impl at ...>` contains no parens; but a name may start with '<' ... find first '(' at angle depth 0
        p = _first_paren_outside_angles(header)
        q = match_paren(header, p)
        name = header[:p]
        params_s = header[p + 1:q]
        ret = header[q + 1:].strip()
        if ret.startswith("->"):
            ret = ret[2:].strip()
        params = []
        for part in split_top(params_s):
            if not part:
                continue
            k = part.find(": ")
            params.append((part[:k].strip(), part[k + 2:].strip()))
        f = Function(name, params, ret, i + 1)
        for loc, ty in params:
            f.locals[loc] = ty
        f.locals["_0"] = ret
        i += 1
        cur = None
        start = i - 1
        while i < n and lines[i] != "}":
            l = lines[i]
            mb = _re_bb.match(l)
            if mb:
                cur = Block(int(mb.group(1)), bool(mb.group(2)))
                f.blocks[cur.id] = cur
            elif cur is not None:
                s = l.strip()
                if s == "}":
                    cur = None
                elif s:
                    cur.stmts.append(s)
            else:
                ml = _re_let.match(l)
                if ml:
                    f.locals[ml.group(1)] = ml.group(2)
                else:
                    md = _re_debug.match(l)
                    if md:
                        f.debug[md.group(1)] = md.group(2)
            i += 1
        f.text = lines[start:i + 1]
        for b in f.blocks.values():
            if b.stmts:
                b.term = b.stmts.pop()
        mi = _re_impl.search(name)
        if mi:
            f.impl_span = (mi.group(1), int(mi.group(2)))
        # short name: text after the last top-level '::' (keep {closure#n} chains)
        segs = split_top(name, "::")
        tail = []
        while segs and (segs[-1].startswith("{closure") or segs[-1].startswith("{constant") or not tail):
            tail.insert(0, segs.pop())
            if not tail[0].startswith("{"):
                break
        f.short = "::".join(tail)
        f.module = "::".join(segs)
        if params and params[0][1].lstrip("&").lstrip("mut ").startswith("{closure@"):
            f.closure_key = params[0][1].lstrip("&").replace("mut ", "", 1) if params[0][1].startswith("&") else params[0][1]
        fns.append(f)
        i += 1
    return fns


def _first_paren_outside_angles(s):
    depth = 0
    for i, c in enumerate(s):
        if c == "<":
            depth += 1
        elif c == ">" and not (i > 0 and s[i - 1] in "-="):
            depth -= 1
        elif c == "(" and depth == 0:
            return i
    raise ValueError("no param list: " + s)


# ---------------------------------------------------------------------------------------------
# places / operands

class Place:
    __slots__ = ("local", "proj")

    def __init__(self, local, proj):
        self.local = local
        self.proj = proj      # list of ('deref',) | ('field', idx, ty) | ('downcast', name) | ('index', operand_str) | ('constindex', i)

    def __repr__(self):
        return f"Place({self.local}, {self.proj})"


_place_cache = {}


def parse_place(s):
    s = s.strip()
    r = _place_cache.get(s)
    if r is None:
        r = _parse_place(s)
        _place_cache[s] = r
    return r


def _parse_place(s):
    if re.fullmatch(r"_\d+", s):
        return Place(s, [])
    if s.startswith("("):
        e = match_paren(s, 0)
        if e == len(s) - 1:
            inner = s[1:-1]
            if inner.startswith("*"):
                p = _parse_place(inner[1:].strip())
                return Place(p.local, p.proj + [("deref",)])
            k = find_top(inner, ": ")
            if k >= 0:
                left, ty = inner[:k], inner[k + 2:]
                d = left.rfind(".")
                base = _parse_place(left[:d])
                return Place(base.local, base.proj + [("field", int(left[d + 1:]), ty)])
            k = find_top(inner, " as ")
            if k >= 0:
                base = _parse_place(inner[:k])
                return Place(base.local, base.proj + [("downcast", inner[k + 4:].strip())])
            return _parse_place(inner)
        # "(...)[...]" or "(...).N" without type (rare)
        rest = s[e + 1:]
        base = _parse_place(s[:e + 1])
        return _suffix(base, rest)
    if s.startswith("*"):
        p = _parse_place(s[1:].strip())
        return Place(p.local, p.proj + [("deref",)])
    m = re.match(r"(_\d+)(.*)$", s)
    if m:
        return _suffix(Place(m.group(1), []), m.group(2))
    raise ValueError("cannot parse place: " + s)


def _suffix(base, rest):
    rest = rest.strip()
    while rest:
        if rest.startswith("["):
            e = match_paren(rest, 0)
            inner = rest[1:e]
            m = re.fullmatch(r"(-?\d+) of (\d+)", inner)
            if m:
                base = Place(base.local, base.proj + [("constindex", int(m.group(1)))])
            else:
                base = Place(base.local, base.proj + [("index", inner)])
            rest = rest[e + 1:].strip()
        else:
            raise ValueError("place suffix: " + rest)
    return base
