"""Symbolic value model for the MIR executor: a graph of Cells holding values; z3 terms at the leaves."""
import z3, re, copy

INT_TYPES = {
    "usize": (64, False), "u64": (64, False), "u32": (32, False), "u16": (16, False), "u8": (8, False), "u128": (128, False),
    "isize": (64, True), "i64": (64, True), "i32": (32, True), "i16": (16, True), "i8": (8, True), "i128": (128, True),
    "char": (32, False),
}


class Cell:
    """A memory location. `val` may be any value below, or an Opaque placeholder materialised on demand."""
    __slots__ = ("val", "ty", "name")

    def __init__(self, val=None, ty=None, name=""):
        self.val = val
        self.ty = ty
        self.name = name

    def __repr__(self):
        return f"Cell({self.name}:{self.val!r})"


class Z:
    """Wrapper for z3 terms so deepcopy shares them."""
    __slots__ = ("e",)

    def __init__(self, e):
        self.e = e

    def __deepcopy__(self, memo):
        return self


class Int(Z):
    __slots__ = ("width", "signed")

    def __init__(self, e, width=64, signed=False):
        self.e = e
        self.width = width
        self.signed = signed

    def __repr__(self):
        return f"Int({self.e})"


class Bool(Z):
    __slots__ = ()

    def __repr__(self):
        return f"Bool({self.e})"


class Unit:
    def __repr__(self):
        return "()"

    def __deepcopy__(self, memo):
        return self


UNIT = Unit()


class Ref:
    """Reference / raw pointer / Box: points at a Cell."""
    __slots__ = ("cell", "kind")

    def __init__(self, cell, kind="&"):
        self.cell = cell
        self.kind = kind

    def __repr__(self):
        return f"Ref({self.cell.name})"


class Adt:
    """struct / tuple / enum / closure / array. fields: {(variant|None, idx): Cell}. discr: None | int | Int."""
    __slots__ = ("ty", "fields", "discr", "tag", "lazy")

    def __init__(self, ty="", discr=None):
        self.ty = ty
        self.fields = {}
        self.discr = discr
        self.tag = None   # free-form identity tag for harness-built objects
        self.lazy = None

    def __repr__(self):
        return f"Adt({self.ty}, d={self.discr}, {sorted((k, v.val) for k, v in self.fields.items())})"


class Opaque:
    """Unconstrained value of type ty, materialised lazily (lazy initialisation)."""
    __slots__ = ("ty", "name", "resolved")

    def __init__(self, ty, name):
        self.ty = ty
        self.name = name
        self.resolved = None

    def __repr__(self):
        return f"Opaque({self.name}: {self.ty})"


class Str:
    __slots__ = ("s",)

    def __init__(self, s):
        self.s = s

    def __repr__(self):
        return f"Str({self.s[:40]!r})"

    def __deepcopy__(self, memo):
        return self


class FnItem:
    __slots__ = ("name",)

    def __init__(self, name):
        self.name = name

    def __repr__(self):
        return f"FnItem({self.name})"

    def __deepcopy__(self, memo):
        return self


class VecVal:
    """Vec/slice model: `base` symbolic prefix length (elements unknown) + explicit items appended in order.
    `items` are Cells. An opaque Vec has base = fresh symbolic length."""
    __slots__ = ("base", "items", "ty", "tag")

    def __init__(self, base=None, items=None, ty=""):
        self.base = base       # None = 0 (no unknown prefix) | Int
        self.items = items if items is not None else []
        self.ty = ty
        self.tag = None

    def __repr__(self):
        return f"Vec(base={self.base}, {self.items})"


class MapVal:
    """BTreeMap model: an ordered list of (key value, value Cell); keys are z3 Ints or python ints; the harness
    fixes the number of entries (bound). Key order = list order (BTreeMap iteration order)."""
    __slots__ = ("entries", "ty", "tag")

    def __init__(self, entries=None, ty=""):
        self.entries = entries if entries is not None else []
        self.ty = ty
        self.tag = None

    def __repr__(self):
        return f"Map({self.entries})"


class IterVal:
    """Iterator over a concrete list of items (Cells or values) with a cursor; optional adaptor tag."""
    __slots__ = ("items", "pos", "kind", "extra", "stages", "count")

    def __init__(self, items, kind="iter", extra=None):
        self.items = items
        self.pos = 0
        self.kind = kind          # source kind: vec_into_iter | slice_iter | map_iter | map_values
        self.extra = extra        # "unknown_prefix" when the source has elements the harness did not fix
        self.stages = []          # lazy adaptors in order: ("enumerate"|"map"|"filter_map"|"filter", closure)
        self.count = 0            # enumerate counter


_re_sp = re.compile(r"(?:std::boxed::|alloc::boxed::|std::sync::|alloc::sync::|std::rc::|alloc::rc::)?(?:Box|Arc|Rc)<")


def int_type(ty):
    ty = ty.strip()
    return INT_TYPES.get(ty)


def is_ref_type(ty):
    ty = ty.strip()
    return ty.startswith("&") or ty.startswith("*const ") or ty.startswith("*mut ") or bool(_re_sp.match(ty))


def pointee(ty):
    ty = ty.strip()
    if ty.startswith("&"):
        t = ty[1:].strip()
        t = re.sub(r"^'\w+\s+", "", t)
        if t.startswith("mut "):
            t = t[4:]
        return t.strip()
    if ty.startswith("*const "):
        return ty[7:].strip()
    if ty.startswith("*mut "):
        return ty[5:].strip()
    m = re.match(r"(?:std::boxed::|alloc::boxed::|std::sync::|alloc::sync::|std::rc::|alloc::rc::)?(?:Box|Arc|Rc)<(.*)>$", ty)
    if m:
        return m.group(1)
    return "?"
