"""Run Kani (CBMC) harnesses on a scratch copy and parse per-harness results.

Verdict rules (DESIGN §2, E2):
  * every check SUCCESS and every cover SATISFIED           -> 'held'
  * a check FAILED that is not an unwinding assertion        -> 'failed'  (candidate counterexample; replay decides)
  * unwinding assertion failed / Status: ERROR / timeout / OOM / harness missing -> 'error' (inconclusive)
  * a cover UNSATISFIED / UNREACHABLE                        -> 'vacuous' (inconclusive, unless the harness is a
                                                                 must-panic harness that lists it as expected)
"""
import os, re, subprocess, time, json, shutil, resource

KANI_ENV = dict(os.environ, CARGO_NET_OFFLINE="true", CARGO_TERM_COLOR="never")

# The one whitelisted tool artefact (DESIGN §1): pointer-relation check inside TypeId's derived Ord.
WHITELIST = [
    (re.compile(r"same object violation"), re.compile(r"PartialOrd|partial_cmp|Ord>::cmp|cmp::")),
]


class HarnessResult:
    def __init__(self, name):
        self.name = name
        self.status = "missing"      # held | failed | error | vacuous | missing
        self.checks_total = 0
        self.checks_failed = 0
        self.covers_total = 0
        self.covers_sat = 0
        self.failed_checks = []       # list of (description, location)
        self.unsat_covers = []
        self.time_s = 0.0
        self.note = ""
        self.stubs = []
        self.whitelisted = 0

    def to_json(self):
        return {k: getattr(self, k) for k in
                ("name", "status", "checks_total", "checks_failed", "covers_total", "covers_sat",
                 "failed_checks", "unsat_covers", "time_s", "note", "stubs", "whitelisted")}


def _limit_mem(gb):
    def f():
        lim = int(gb * (1 << 30))
        resource.setrlimit(resource.RLIMIT_AS, (lim, lim))
    return f


def run(repo, target_dir, filters, *, exact=False, jobs=8, features=None, no_default_features=False,
        harness_timeout=600, total_timeout=3600, mem_gb=40, default_unwind=None, extra=None, log_path=None,
        cwd=None, manifest_path=None):
    """Run `cargo kani` once for the given harness filters. Returns (results: {short_name: HarnessResult},
    build_ok, raw_output, wall_s)."""
    cmd = ["cargo", "kani", "--target-dir", target_dir, "-Z", "stubbing", "-Z", "unstable-options",
           "--harness-timeout", f"{harness_timeout}s", "-j", str(jobs), "--output-format", "terse"]
    if manifest_path:
        cmd += ["--manifest-path", manifest_path]
    if no_default_features:
        cmd.append("--no-default-features")
    if features:
        cmd += ["--features", ",".join(features)]
    if default_unwind:
        cmd += ["--default-unwind", str(default_unwind)]
    if exact:
        cmd.append("--exact")
    for f in filters:
        cmd += ["--harness", f]
    if extra:
        cmd += extra
    t0 = time.time()
    try:
        p = subprocess.run(cmd, cwd=cwd or repo, env=KANI_ENV, stdout=subprocess.PIPE, stderr=subprocess.STDOUT,
                           text=True, timeout=total_timeout, preexec_fn=None)
        out = p.stdout
        rc = p.returncode
    except subprocess.TimeoutExpired as e:
        out = (e.stdout or b"").decode() if isinstance(e.stdout, bytes) else (e.stdout or "")
        out += "\n[uv] TOTAL TIMEOUT\n"
        rc = -9
        subprocess.run(["pkill", "-x", "cbmc"])
    wall = time.time() - t0
    if log_path:
        with open(log_path, "w") as f:
            f.write("$ " + " ".join(cmd) + "\n" + out)
    build_ok = "error: could not compile" not in out and "Failed to execute cargo" not in out
    return parse(out), build_ok, out, wall


_re_checking = re.compile(r"^Checking harness (\S+?)\.\.\.")
_re_thread = re.compile(r"^Thread (\d+): ?(.*)$")


def parse(out):
    """Parse kani terse output (-j N: lines/blocks prefixed 'Thread k:'). Returns {short_name: HarnessResult}."""
    results = {}
    thread_cur = {}
    cur = None
    last_failed = None
    for raw in out.splitlines():
        line = raw
        m = _re_thread.match(line)
        if m:
            tid, line = m.group(1), m.group(2)
            if tid in thread_cur:
                cur = thread_cur[tid]
        else:
            tid = None
        mc = _re_checking.match(line)
        if mc:
            full = mc.group(1)
            cur = HarnessResult(full)
            results[full.split("::")[-1]] = cur
            if tid is not None:
                thread_cur[tid] = cur
            continue
        if cur is None:
            continue
        s = line.strip()
        if s.startswith("- Stub:"):
            cur.stubs.append(s[len("- Stub:"):].strip())
            continue
        m = re.match(r"\*\* (\d+) of (\d+) failed", s)
        if m:
            cur.checks_failed_reported = int(m.group(1))
            cur.checks_total = int(m.group(2))
            continue
        m = re.match(r"\*\* (\d+) of (\d+) cover properties satisfied", s)
        if m:
            cur.covers_sat, cur.covers_total = int(m.group(1)), int(m.group(2))
            continue
        if s.startswith("Failed Checks:"):
            last_failed = [s[len("Failed Checks:"):].strip(), "", "FAILURE"]
            cur.failed_checks.append(last_failed)
            continue
        if s.startswith("File:") and last_failed is not None and not last_failed[1]:
            last_failed[1] = s
            wl = any(a.search(last_failed[0]) and b.search(last_failed[1]) for a, b in WHITELIST)
            if wl:
                cur.failed_checks.remove(last_failed)
                cur.whitelisted += 1
            last_failed = None
            continue
        if s.startswith("VERIFICATION:-"):
            cur._verdict = s.split(":-", 1)[1].strip()
            continue
        if s.startswith("Verification Time:"):
            try:
                cur.time_s = float(s.split(":", 1)[1].strip().rstrip("s"))
            except ValueError:
                pass
            _finish(cur)
            continue
        low = s.lower()
        if "timed out" in low or "timeout" in low and "harness" in low:
            cur.status, cur.note = "error", "timeout"
        elif s.startswith("CBMC failed") or "Status: ERROR" in s or "out of memory" in low or "std::bad_alloc" in s:
            cur.status, cur.note = "error", (cur.note + " " + s).strip()
    for r in results.values():
        if r.status == "missing":
            if hasattr(r, "_verdict"):
                _finish(r)
            else:
                r.status = "error"
                r.note = r.note or "no verdict (timeout/crash)"
    return results


def _finish(r):
    if r.status == "error":
        return
    verdict = getattr(r, "_verdict", "")
    unwinding = [c for c in r.failed_checks if "unwinding assertion" in c[0]]
    undetermined = []
    real = [c for c in r.failed_checks if c not in unwinding and c[2] == "FAILURE"]
    r.checks_failed = len(r.failed_checks)
    if unwinding:
        r.status = "error"
        r.note = "unwinding assertion failed: bound too small"
    elif real:
        r.status = "failed"
    elif undetermined:
        r.status = "error"
        r.note = "undetermined checks"
    elif verdict.startswith("SUCCESSFUL") or (verdict.startswith("FAILED") and r.whitelisted and not r.failed_checks):
        if r.covers_sat < r.covers_total:
            r.status = "vacuous"
            r.note = f"{r.covers_total - r.covers_sat} cover(s) not satisfied"
        else:
            r.status = "held"
    else:
        r.status = "error"
        r.note = f"verdict {verdict!r} without failed checks"


def playback(repo, target_dir, harness_full, features=None, no_default_features=False, timeout=900, log_path=None):
    """Concrete playback: let Kani write the counterexample as a unit test next to the harness, then run it natively
    (dev profile). Returns (reproduced: bool|None, detail). None = could not run."""
    short = harness_full.split("::")[-1]
    base = ["cargo", "kani", "--target-dir", target_dir, "-Z", "stubbing", "-Z", "concrete-playback",
            "--concrete-playback=inplace", "--harness", harness_full, "--exact"]
    if no_default_features:
        base.append("--no-default-features")
    if features:
        base += ["--features", ",".join(features)]
    try:
        p = subprocess.run(base, cwd=repo, env=KANI_ENV, stdout=subprocess.PIPE, stderr=subprocess.STDOUT, text=True,
                           timeout=timeout)
    except subprocess.TimeoutExpired:
        return None, "playback generation timed out"
    gen = p.stdout
    # Kani writes one unit test per failing check AND per satisfied cover; run them all: the counterexample
    # reproduces iff at least one of them fails natively.
    test = f"kani_concrete_playback_{short}"
    g = subprocess.run(["grep", "-rhoE", rf"fn {test}_\w+", os.path.join(repo, "src")], stdout=subprocess.PIPE, text=True).stdout
    if not g.strip():
        if log_path:
            open(log_path, "w").write(gen)
        return None, "no concrete playback test generated"
    cmd = ["cargo", "kani", "playback", "-Z", "concrete-playback"]
    if no_default_features:
        cmd.append("--no-default-features")
    if features:
        cmd += ["--features", ",".join(features)]
    cmd += ["--", test]
    env = dict(KANI_ENV, CARGO_TARGET_DIR=target_dir + "-playback")
    try:
        q = subprocess.run(cmd, cwd=repo, env=env, stdout=subprocess.PIPE, stderr=subprocess.STDOUT, text=True,
                           timeout=timeout)
    except subprocess.TimeoutExpired:
        return None, "playback run timed out"
    if log_path:
        open(log_path, "w").write(gen[-20000:] + "\n=== playback ===\n" + q.stdout[-20000:])
    failed = re.findall(r"^test (\S*kani_concrete_playback_\S+) \.\.\. FAILED", q.stdout, re.M)
    if failed:
        body = _extract_test(repo, failed[0].split("::")[-1])
        panics = "\n".join(l for l in q.stdout.splitlines() if "panicked at" in l or "assertion" in l)[:1500]
        return True, body + "\n--- native run: FAILED tests: " + ", ".join(failed) + "\n" + panics
    if re.search(r"test result: ok\. [1-9]\d* passed", q.stdout):
        return False, "--- all generated playback tests passed natively ---\n" + q.stdout[-1500:]
    return None, q.stdout[-3000:]


def _extract_test(repo, test):
    g = subprocess.run(["grep", "-rl", f"fn {test}", os.path.join(repo, "src")], stdout=subprocess.PIPE, text=True).stdout.split()
    if not g:
        return ""
    src = open(g[0]).read()
    k = src.find(f"fn {test}")
    return src[max(0, src.rfind("#[test]", 0, k)):k + 4000].split("\n}\n")[0] + "\n}\n"
