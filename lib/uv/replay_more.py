"""More native replay batteries (public API), keyed by E1 unit."""
import json, itertools
from . import replay as R


def expected_fallthrough(p):
    """C07 / C15 / C16: what a call resolves to."""
    has_default = p["trait"][0] == "1"
    has_unmock = p["trait"][1] == "1"
    partial = str(p["partial"]) == "1"
    mention = p["mention"]
    if mention == "match":
        return ("ok", "mock")
    if mention == "none":
        if has_default:
            return ("ok", "default(5)")
        if partial:
            return ("ok", "real(5)") if has_unmock else ("panic", "cannot be unmocked")
        return ("panic", "No mock implementation found")
    # mentioned, but every pattern rejects the arguments
    if partial:
        return ("ok", "real(5)") if has_unmock else ("panic", "cannot be unmocked")
    return ("panic", "No matching call patterns")


def fallthrough_battery():
    for tr, partial, mention in itertools.product(("00", "10", "01", "11"), (0, 1), ("none", "nomatch", "match")):
        yield {"trait": tr, "partial": partial, "mention": mention}


BATTERIES = {
    "eval_dyn": [("fallthrough", fallthrough_battery, expected_fallthrough)],
}


def run_batteries(root, names):
    """Returns (reproduced, detail, runs)."""
    lines, reproduced, ran = [], False, 0
    for profile in ("dev", "release"):
        binary, err = R.build(root, profile)
        if binary is None:
            return None, "replay crate did not build:\n" + err, 0
        for scen, gen, oracle in names:
            for sc in gen():
                exp = oracle(sc)
                if exp is None:
                    continue
                obs = R.run_scenario(binary, scen, sc)
                ran += 1
                if not R.matches(obs, exp):
                    reproduced = True
                    lines.append(f"[{profile}] {scen} {json.dumps(sc)}\n    property demands: {exp}\n    observed: {obs}")
        if reproduced:
            break
    return reproduced, f"{ran} native scenario runs (public API, dev+release)\n" + "\n".join(lines[:12]), ran


def replay(prop, unit, root, models):
    bats = BATTERIES.get(unit["name"])
    if not bats:
        return None, "no native replay template for this unit"
    ok, detail, ran = run_batteries(root, bats)
    return ok, detail
