"""E1 self-check (thorough tier): the repo's own concrete inputs are pushed through BOTH the real functions (a `#[cfg(test)]`
module appended to the scratch copy, run natively) and the symbolic encoding (the explored MIR paths, evaluated under the
same concrete values). Every vector must lie in exactly one explored path, and that path's outcome must evaluate to what
the real function produced. This validates the MIR parser / executor / summaries (incl. the fmt template decoder) against
the implementation — it is not a property check; a disagreement makes the unit inconclusive (exit 2), never a violation."""
import os, re, subprocess, json, time
import z3
from . import scratch
from .mirsym.values import *
from .mirsym.engine import Unsupported

U64 = 2 ** 64 - 1

COUNTER_TABLE = [(0, 0, 0), (0, 1, 0), (1, 1, 0), (1, 0, 0), (2, 3, 0), (U64, U64, 0), (U64, 0, 0),
                 (0, 0, 1), (1, 0, 1), (1, 1, 1), (1, 2, 1), (5, 4, 1), (U64, U64, 1), (U64, U64 - 1, 1),
                 (0, 0, 2), (0, 1, 2), (1, 1, 2), (1, 2, 2), (3, 4, 2), (3, 3, 2), (U64 - 1, U64, 2), (U64 - 1, U64 - 1, 2), (U64, 0, 2)]
NCALLS_TABLE = [0, 1, 2, 7, 255, U64]
MISMATCH_TABLE = [(p, i, u, k, c) for p in (0, 3) for i in (0, 1, 17) for u in (0, 1) for k in (0, 1, 2) for c in (0, 1)]

NATIVE_COUNTER = '''
#[cfg(test)]
mod uv_selfcheck {
    extern crate std;
    #[allow(unused_imports)]
    use std::{boxed::Box, format, println, string::String, vec::Vec};
    use super::*;
    struct UvFn;
    impl crate::MockFn for UvFn {
        type Inputs<'i> = ();
        type OutputKind = crate::output::Owning<()>;
        type AnswerFn = dyn Fn(&crate::Unimock) + Send + Sync;
        fn info() -> crate::MockFnInfo {
            crate::MockFnInfo::new::<Self>().path(&["T", "m"])
        }
    }
    #[test]
    fn uv_selfcheck_counter() {
        std::panic::set_hook(Box::new(|_| {}));
        let table: &[(usize, usize, u8)] = &[@COUNTER@];
        for &(min, actual, ex) in table {
            let r = std::panic::catch_unwind(|| {
                let exn = match ex { 0 => Exactness::Exact, 1 => Exactness::AtLeast, _ => Exactness::AtLeastPlusOne };
                let c = CallCounter { actual_count: AtomicUsize::new(actual), expectation: CallCountExpectation::new(min, exn) };
                let mut errors = Vec::new();
                let info = <UvFn as crate::MockFn>::info();
                let n = c.verify(&info, || debug::CallPatternDebug::new(<UvFn as crate::MockFn>::info(), debug::CallPatternLocation::PatIndex(crate::call_pattern::PatIndex(0))), &mut errors);
                let word = match errors.first() { Some(MockError::FailedVerification(m)) => if m.contains("exactly") { "exactly" } else if m.contains("at least") { "atleast" } else { "other" }, Some(_) => "other", None => "-" };
                (errors.len(), n.0, word)
            });
            match r {
                Ok((e, n, w)) => println!("UVSC counter {min} {actual} {ex} => ok {e} {n} {w}"),
                Err(_) => println!("UVSC counter {min} {actual} {ex} => panic"),
            }
        }
        for n in [@NCALLS@] {
            println!("UVSC ncalls {n} => {}", NCalls(n));
        }
    }
}
'''

NATIVE_DEBUG = '''
#[cfg(test)]
mod uv_selfcheck {
    extern crate std;
    #[allow(unused_imports)]
    use std::{boxed::Box, format, println, string::String, vec::Vec};
    use super::*;
    struct UvFn;
    impl crate::MockFn for UvFn {
        type Inputs<'i> = ();
        type OutputKind = crate::output::Owning<()>;
        type AnswerFn = dyn Fn(&crate::Unimock) + Send + Sync;
        fn info() -> crate::MockFnInfo {
            crate::MockFnInfo::new::<Self>().path(&["T", "m"])
        }
    }
    #[test]
    fn uv_selfcheck_display_call() {
        for n in 0..=4usize {
            for bits in 0..(1u32 << n) {
                let inputs: Vec<Option<String>> = (0..n).map(|i| if bits & (1 << i) != 0 { Some(format!("a{i}")) } else { None }).collect();
                let call = FnActualCall { info: <UvFn as crate::MockFn>::info(), inputs_debug: inputs.into_boxed_slice() };
                println!("UVSC display_call {n} {bits} => {call}");
            }
        }
    }
}
'''

NATIVE_MISMATCH = '''
#[cfg(test)]
mod uv_selfcheck {
    extern crate std;
    #[allow(unused_imports)]
    use std::{boxed::Box, format, println, string::String, vec::Vec};
    use super::*;
    #[test]
    fn uv_selfcheck_mismatch_header() {
        let table: &[(usize, usize, u8, u8, u8)] = &[@MISMATCH@];
        for &(p, i, u, k, c) in table {
            let kind = match k { 0 => MismatchKind::Pattern, 1 => MismatchKind::Eq, _ => MismatchKind::Ne };
            let mut m = MismatchMsg::new(PatIndex(p), InputIndex(i), u != 0, kind);
            m.has_comparison = c != 0;
            let s = format!("{m}");
            println!("UVSC mismatch {p} {i} {u} {k} {c} => {}", s.trim_end());
        }
    }
}
'''


def run_native(root):
    work = os.path.join(root, "selfcheck")
    repo = os.path.join(work, "repo")
    if not os.path.exists(repo):
        scratch.copy_repo(work)
    tbl = lambda rows: ", ".join("(" + ", ".join(str(x) for x in r) + ")" for r in rows)
    adds = {"src/counter.rs": NATIVE_COUNTER.replace("@COUNTER@", tbl(COUNTER_TABLE)).replace("@NCALLS@", ", ".join(f"{n}usize" for n in NCALLS_TABLE)),
            "src/debug.rs": NATIVE_DEBUG, "src/mismatch.rs": NATIVE_MISMATCH.replace("@MISMATCH@", tbl(MISMATCH_TABLE))}
    for rel, txt in adds.items():
        p = os.path.join(repo, rel)
        s = open(p).read()
        if "mod uv_selfcheck" not in s:
            open(p, "a").write("\n" + txt)
    t0 = time.time()
    pr = subprocess.run(["cargo", "test", "--offline", "--lib", "--target-dir", os.path.join(work, "target"), "uv_selfcheck", "--", "--nocapture", "--test-threads", "1"],
                        cwd=repo, stdout=subprocess.PIPE, stderr=subprocess.PIPE, text=True, env=dict(os.environ, CARGO_NET_OFFLINE="true"))
    out = {}
    for l in pr.stdout.splitlines():
        m = re.search(r"UVSC (\w+) (.*?) => (.*)$", l)
        if m:
            out[(m.group(1), m.group(2))] = m.group(3)
    return out, pr.returncode, pr.stderr[-1500:], time.time() - t0


def _paths_for(eng, conds_of_vector, paths):
    """paths that contain the concrete vector (given as a list of z3 equalities)."""
    return [p for p in paths if eng.check(list(p.pc) + conds_of_vector) == z3.sat]


def unit_e1_selfcheck(eng, tier, prop, root=None):
    from .mirunits import Unit, field_index, events, fmt_capture, rendered, lazy_adt
    u = Unit(eng, "e1-vs-native", ["CallCounter::verify", "<NCalls as Display>::fmt", "<FnActualCall as Display>::fmt", "<MismatchMsg as Display>::fmt"],
             f"{len(COUNTER_TABLE)} counter vectors (incl. boundary values and the overflow case), {len(NCALLS_TABLE)} call counts, all 31 presence assignments for arity 0..4, {len(MISMATCH_TABLE)} mismatch headers")
    u.desc = "differential validation of the E1 encoding against the real functions (not a property check)"
    native, rc, err, dt = run_native(root)
    if rc != 0 or not native:
        u.errors.append("native self-check run failed (the appended test module does not build against this tree?): " + err[-400:])
        return u.result()
    agree = 0

    def verdict(name, key, ok, ctx):
        nonlocal agree
        u.obligations += 1
        u._count(name)
        if ok:
            u.discharged += 1
            agree += 1
        else:
            # a disagreement between the encoding and the implementation is an ENGINE problem: inconclusive, not a violation
            u.errors.append(f"{name}: encoding and implementation disagree on {key}: {json.dumps(ctx, default=str)[:300]}")

    # ---- CallCounter::verify
    f = eng.find_fn(r"^counter::<impl at src/counter\.rs:\d+:1: \d+:17>::verify$")
    i_ac = field_index(eng, "CallCounter", "actual_count")
    i_ex = field_index(eng, "CallCounter", "expectation")
    i_min = field_index(eng, "CallCountExpectation", "minimum")
    i_e = field_index(eng, "CallCountExpectation", "exactness")
    actual = eng.named(f"self.*.{i_ac}.atomic.0", 64)
    minimum = eng.named(f"self.*.{i_ex}.{i_min}", 64)
    ex = eng.named(f"self.*.{i_ex}.{i_e}.discr", 64)

    def cb(call, fobj, args):
        call.m.event("debug_fn")
        return Opaque("debug::CallPatternDebug", "pattern_debug")
    eng.callback_hook = cb
    try:
        paths = u.explore(f, [eng.arg("self", "&CallCounter"), eng.arg("info", "&MockFnInfo"), Opaque("impl Fn", "debug_fn"), eng.arg("errors", "&mut Vec<MockError>")])
    finally:
        eng.callback_hook = None
    exmap = {0: "Exact", 1: "AtLeast", 2: "AtLeastPlusOne"}
    for (mn, ac, e) in COUNTER_TABLE:
        nat = native.get(("counter", f"{mn} {ac} {e}"))
        conds = [minimum == mn, actual == ac, ex == eng.variant_index("Exactness", exmap[e])]
        ps = _paths_for(eng, conds, paths)
        if len(ps) != 1 or nat is None:
            verdict("selfcheck.counter-verify", (mn, ac, e), False, {"paths_containing_vector": len(ps), "native": nat})
            continue
        p = ps[0]
        if p.outcome[0] == "panic":
            mine = "panic"
        else:
            pushes = events(p, "vec_push")
            fm = events(p, "format_args")
            tmpl = fm[0][1] if fm else ""
            word = "-" if not pushes else ("exactly" if "exactly" in tmpl else ("atleast" if "at least" in tmpl else "other"))
            s = z3.Solver()
            s.add(list(p.pc) + conds)
            s.check()
            rv = s.model().eval(p.outcome[1].fields[(None, 0)].val.e, model_completion=True).as_long()
            mine = f"ok {len(pushes)} {rv} {word}"
        verdict("selfcheck.counter-verify", (mn, ac, e), mine == nat, {"encoding": mine, "native": nat})
    # ---- NCalls Display
    hs = fmt_capture(eng)
    for h in hs:
        eng.handlers.insert(0, h)
    try:
        nf = [g for g in eng.fns if g.short == "fmt" and g.params and g.params[0][1].replace(" ", "") in ("&NCalls", "&counter::NCalls")]
        if len(nf) == 1:
            nv = eng.named("ncalls", 64)
            nc = Adt("NCalls", None)
            nc.fields[(None, 0)] = Cell(Int(nv, 64, False), None, "ncalls")
            paths = eng.explore(eng.start(nf[0], [Ref(Cell(nc, None, "n")), Ref(Cell(Adt("Formatter", None), None, "f"))]))
            u.paths += len(paths)
            for n in NCALLS_TABLE:
                nat = native.get(("ncalls", str(n)))
                ps = _paths_for(eng, [nv == n], [p for p in paths if p.outcome[0] == "return"])
                mine = re.sub(r"\{int:[^}]*\}", str(n), rendered(ps[0])) if len(ps) == 1 else None
                verdict("selfcheck.ncalls-display", n, mine is not None and mine == nat, {"encoding": mine, "native": nat})
        else:
            u.errors.append("NCalls Display impl not found")
        # ---- FnActualCall Display
        cands = [g for g in eng.fns if g.short == "fmt" and g.params and g.params[0][1].replace(" ", "") in ("&FnActualCall", "&debug::FnActualCall")]
        if len(cands) == 1:
            i_info = field_index(eng, "FnActualCall", "info")
            i_in = field_index(eng, "FnActualCall", "inputs_debug")
            i_path = field_index(eng, "MockFnInfo", "path")
            for n in range(0, 5):
                items, present = [], []
                for i in range(n):
                    o = Adt("Option", None)
                    d = eng.named(f"sc.input[{i}].has_debug", 64)
                    sv = Adt("String", None)
                    sv.tag = ("input", i)
                    o.fields[("Some", 0)] = Cell(sv, None, f"in{i}")
                    o.discr = Int(d, 64, False)
                    present.append(d)
                    items.append(Cell(o, None, f"inputs[{i}]"))
                call = Adt("FnActualCall", None)
                info = Adt("MockFnInfo", None)
                pth = Adt("TraitMethodPath", None)
                pth.tag = ("path",)
                info.fields[(None, i_path)] = Cell(pth, None, "path")
                call.fields[(None, i_info)] = Cell(info, None, "info")
                call.fields[(None, i_in)] = Cell(Ref(Cell(VecVal(None, items, "Box<[T]>"), None, "inputs"), "box"), None, "inputs_debug")
                mach = eng.start(cands[0], [Ref(Cell(call, None, "call")), Ref(Cell(Adt("Formatter", None), None, "f"))])
                for d in present:
                    mach.pc.append(z3.ULE(d, 1))
                paths = [p for p in eng.explore(mach) if p.outcome[0] == "return"]
                u.paths += len(paths)
                for bits in range(1 << n):
                    nat = native.get(("display_call", f"{n} {bits}"))
                    conds = [present[i] == (1 if bits & (1 << i) else 0) for i in range(n)]
                    ps = _paths_for(eng, conds, paths)
                    mine = None
                    if len(ps) == 1:
                        mine = rendered(ps[0]).replace("{path}", "T::m")
                        mine = re.sub(r"\{input:(\d+)\}", lambda m: "a" + m.group(1), mine)
                    verdict("selfcheck.display-call", (n, bits), mine is not None and mine == nat, {"encoding": mine, "native": nat})
        else:
            u.errors.append("FnActualCall Display impl not found")
        # ---- MismatchMsg Display
        mc = [g for g in eng.fns if g.short == "fmt" and g.params and g.params[0][1].replace(" ", "") in ("&MismatchMsg", "&mismatch::MismatchMsg")]
        if len(mc) == 1:
            msg = Adt("MismatchMsg", None)
            pv, iv, kv = eng.named("sc.pat_index", 64), eng.named("sc.input_index", 64), eng.named("sc.kind", 64)
            uq, cf = eng.named_bool("sc.is_unique_pat"), eng.named_bool("sc.has_comparison")
            pi = Adt("PatIndex", None)
            pi.fields[(None, 0)] = Cell(Int(pv, 64, False), None, "pat_index")
            ii = Adt("InputIndex", None)
            ii.fields[(None, 0)] = Cell(Int(iv, 64, False), None, "input_index")
            msg.fields[(None, field_index(eng, "MismatchMsg", "pat_index"))] = Cell(pi, None, "pi")
            msg.fields[(None, field_index(eng, "MismatchMsg", "input_index"))] = Cell(ii, None, "ii")
            msg.fields[(None, field_index(eng, "MismatchMsg", "is_unique_pat"))] = Cell(Bool(uq), None, "uniq")
            msg.fields[(None, field_index(eng, "MismatchMsg", "has_comparison"))] = Cell(Bool(cf), None, "cmp")
            msg.fields[(None, field_index(eng, "MismatchMsg", "mismatch_kind"))] = Cell(Adt("MismatchKind", Int(kv, 64, False)), None, "kind")
            mach = eng.start(mc[0], [Ref(Cell(msg, None, "msg")), Ref(Cell(Adt("Formatter", None), None, "f"))])
            mach.pc.append(z3.ULT(kv, len(eng.enums["MismatchKind"])))
            paths = [p for p in eng.explore(mach) if p.outcome[0] == "return"]
            u.paths += len(paths)
            kmap = {0: "Pattern", 1: "Eq", 2: "Ne"}
            for (p_, i_, u_, k_, c_) in MISMATCH_TABLE:
                nat = native.get(("mismatch", f"{p_} {i_} {u_} {k_} {c_}"))
                conds = [pv == p_, iv == i_, kv == eng.variant_index("MismatchKind", kmap[k_]), uq == bool(u_), cf == bool(c_)]
                ps = _paths_for(eng, conds, paths)
                mine = None
                if len(ps) == 1:
                    mine = rendered(ps[0]).replace("{int:sc.pat_index}", str(p_)).replace("{int:sc.input_index}", str(i_)).rstrip()
                verdict("selfcheck.mismatch-header", (p_, i_, u_, k_, c_), mine is not None and mine == nat, {"encoding": mine, "native": nat})
        else:
            u.errors.append("MismatchMsg Display impl not found")
    finally:
        for h in hs:
            eng.handlers.remove(h)
    u.witness("vectors compared", [z3.BoolVal(agree >= 20)])
    r = u.result()
    r["traces_validated_against_impl"] = agree
    r["validated"] = agree
    r["engine"] = "mirsym"
    return r
