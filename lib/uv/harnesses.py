"""Harness registry: derived from `//@ key=value ...` annotation lines placed directly above each harness
function in the overlay (in-file modules) and in the external harness crate templates."""
import os, re, shlex

VERIF = os.path.dirname(os.path.dirname(os.path.dirname(os.path.abspath(__file__))))

_ann = re.compile(r"^[ \t]*//@ (.*)$")
_fn = re.compile(r"^[ \t]*(?:pub )?(?:async )?fn (\w+)")


def scan_file(path, where):
    out = []
    pending = None
    for line in open(path):
        m = _ann.match(line)
        if m:
            kv = {}
            for tok in shlex.split(m.group(1)):
                if "=" in tok:
                    k, v = tok.split("=", 1)
                    kv[k] = v
            pending = kv
            continue
        m = _fn.match(line)
        if m and pending is not None:
            h = {
                "name": m.group(1),
                "props": pending.get("props", "").split(","),
                "tier": pending.get("tier", "quick"),
                "fns": [x for x in pending.get("fns", "").split(",") if x],
                "bounds": pending.get("bounds", ""),
                "features": pending.get("features", "std"),   # build config: std | nostd
                "expect": pending.get("expect", "held"),
                "where": where,
                "file": path,
                "inst": pending.get("inst", ""),
                "replay": pending.get("replay", ""),
            }
            out.append(h)
            pending = None
    return out


def infile_harnesses():
    d = os.path.join(VERIF, "overlay", "infile")
    out = []
    for dp, _, fs in os.walk(d):
        for f in sorted(fs):
            out += scan_file(os.path.join(dp, f), "infile")
    return out


def ext_harnesses():
    d = os.path.join(VERIF, "harness_ext", "src")
    out = []
    if os.path.isdir(d):
        for dp, _, fs in os.walk(d):
            for f in sorted(fs):
                if f.endswith(".rs"):
                    out += scan_file(os.path.join(dp, f), "ext")
    return out


def select(hs, prop, tier):
    sel = []
    for h in hs:
        if prop in h["props"] and h["tier"] != "disabled" and (tier == "thorough" or h["tier"] == "quick"):
            sel.append(h)
    return sel
