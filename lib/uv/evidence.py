import json, os

VERIF = os.path.dirname(os.path.dirname(os.path.dirname(os.path.abspath(__file__))))


def write(prop, tier, seed, units, wall_s, violations, assumptions, extra=None, inconclusive=None):
    """units: list of dicts with keys engine,name,status,functions,bounds,obligations,discharged,solver_s,..."""
    evaluations = sum(int(u.get("obligations", 0)) for u in units)
    nontrivial = sum(1 for u in units if u.get("status") == "held" and u.get("nonvacuous", True) and u.get("obligations", 0) > 0)
    fns = sorted({f for u in units for f in u.get("functions", [])})
    samples = []
    for u in units[:60]:
        samples.append({k: u[k] for k in ("engine", "name", "status", "bounds", "desc", "obligations", "solver_s", "model", "cross_check", "obligation_kinds", "validated") if k in u and u[k] not in (None, "")})
    cov = {
        "evaluations": evaluations,
        "distinct_nontrivial": nontrivial,
        "rule": "one evaluation = one solver-discharged obligation (a CBMC property of a Kani harness over kani::any() inputs, "
                "or one z3 query path-condition AND NOT post over MIR-derived symbolic state); a unit (harness / query set) counts as "
                "distinct non-trivial when all its obligations are discharged AND its vacuity witnesses (kani::cover! / antecedent-sat queries) are satisfied",
        "samples": samples,
        "obligations": evaluations,
        "discharged": sum(int(u.get("discharged", 0)) for u in units),
        "functions_encoded": fns,
        "units": len(units),
        "units_held": sum(1 for u in units if u.get("status") == "held"),
        "units_inconclusive": sum(1 for u in units if u.get("status") in ("error", "vacuous")),
        "units_failed": sum(1 for u in units if u.get("status") == "failed"),
        "solver_time_s": round(sum(float(u.get("solver_s", 0)) for u in units), 3),
        "traces_validated_against_impl": sum(int(u.get("validated", 0)) for u in units),
        "cross_checked_with_second_solver": {"queries": sum(int(u.get("cross_check", {}).get("queries", 0)) for u in units), "agree": sum(int(u.get("cross_check", {}).get("agree", 0)) for u in units)},
        "engines": sorted({u.get("engine", "") for u in units}),
        "exhaustive": False,
        "explanation": "bounded symbolic checking of the real code: the solver decides each obligation for all values inside the stated bounds; nothing is claimed outside them",
    }
    if extra:
        cov.update(extra)
    ev = {
        "property_id": prop,
        "tier": tier,
        "seed": int(seed),
        "level": "model_checking",
        "coverage": cov,
        "assumptions": assumptions,
        "wall_s": round(wall_s, 2),
        "violations": violations,
    }
    if inconclusive:
        ev["inconclusive"] = inconclusive
    os.makedirs(os.path.join(VERIF, "evidence"), exist_ok=True)
    p = os.path.join(VERIF, "evidence", f"{prop}.json")
    tmp = p + ".tmp"
    json.dump(ev, open(tmp, "w"), indent=1, default=str)
    os.replace(tmp, p)
    return p
