"""bin/check driver: scratch copy -> overlay -> engines -> replay -> evidence -> exit code.

Exit codes: 0 held on everything explored / 1 VIOLATION (only after native replay) / 2 inconclusive.
"""
import os, sys, time, json, argparse, traceback, concurrent.futures as cf

from . import scratch, kani, harnesses, evidence

VERIF = scratch.VERIF
KNOWN = os.path.join(VERIF, "known_findings.json")

BUILD_CONFIGS = {
    # name -> (no_default_features, features)
    "std": (False, None),
    "nostd": (True, ["critical-section", "spin-lock"]),
    "mocks": (False, ["mock-core", "mock-std", "mock-embedded-hal-1"]),
}


def log(*a):
    print("[check]", *a, file=sys.stderr, flush=True)


def load_known():
    if os.path.exists(KNOWN):
        return json.load(open(KNOWN))
    return {"findings": []}


def run_kani_units(prop, tier, root, hs, where, units, replays, jobs):
    """Run the selected Kani harnesses (grouped by build config) and append unit results."""
    by_cfg = {}
    for h in hs:
        by_cfg.setdefault(h["features"], []).append(h)
    for cfg, group in by_cfg.items():
        ndf, feats = BUILD_CONFIGS[cfg]
        work = os.path.join(root, f"{where}-{cfg}")
        tgt = os.path.join(work, "kani-target")
        tmo = 1500 if tier == "thorough" else 420
        skipped = set()
        stale = {}
        for attempt in range(4):
            repo = scratch.copy_repo(work)
            scratch.apply_overlay(repo, infile=True, prepend=True, skip=skipped)
            cwd = repo
            if where == "ext":
                from . import extcrate
                cwd = extcrate.materialise(work, repo, cfg, skip=skipped)
            live = [h for h in group if os.path.relpath(h["file"], os.path.join(VERIF, "overlay", "infile")) not in skipped
                    and os.path.basename(h["file"]) not in skipped]
            names = [h["name"] for h in live]
            if not names:
                res, build_ok, out, wall = {}, True, "", 0
                break
            res, build_ok, out, wall = kani.run(cwd, tgt, names, jobs=min(jobs, max(1, len(names))),
                                                features=feats if where == "infile" else None,
                                                no_default_features=ndf if where == "infile" else False,
                                                harness_timeout=tmo, total_timeout=tmo * 3 + 600,
                                                log_path=os.path.join(VERIF, "evidence", "logs", f"{prop}-{where}-{cfg}.log"))
            log(f"kani {where}/{cfg}: {len(names)} harnesses, build_ok={build_ok}, wall={wall:.0f}s")
            if build_ok:
                break
            # a harness module that no longer compiles (renamed / re-typed private item) is dropped; the others still run
            bad = stale_overlay_files(out, where)
            new = bad - skipped
            if not new:
                break
            for b in new:
                stale[b] = "\n".join(l for l in out.splitlines() if l.startswith("error"))[:600]
            skipped |= new
            log(f"  stale harness module(s) dropped: {sorted(new)}")
        for h in group:
            r = res.get(h["name"])
            u = {
                "engine": f"kani-{where}", "name": h["name"], "functions": h["fns"], "bounds": h["bounds"],
                "build": cfg, "inst": h["inst"],
            }
            hrel = os.path.relpath(h["file"], os.path.join(VERIF, "overlay", "infile"))
            if hrel in skipped or os.path.basename(h["file"]) in skipped:
                u.update(status="error", note="stale harness module (no longer compiles against this tree; the items it names changed): " + stale.get(hrel, stale.get(os.path.basename(h["file"]), ""))[:300],
                         obligations=0, discharged=0, solver_s=0)
                units.append(u)
                continue
            if not build_ok or r is None:
                u.update(status="error", note="harness did not build or was not run (stale harness / renamed item?)" if not build_ok
                         else "harness not found in Kani output", obligations=0, discharged=0, solver_s=0)
                if not build_ok:
                    u["build_tail"] = "\n".join([l for l in out.splitlines() if l.startswith("error")][:8])
                units.append(u)
                continue
            u.update(status=r.status, note=r.note, obligations=r.checks_total + r.covers_total,
                     discharged=(r.checks_total - len(r.failed_checks)) + r.covers_sat, solver_s=r.time_s,
                     covers=f"{r.covers_sat}/{r.covers_total}", stubs=r.stubs, whitelisted=r.whitelisted,
                     nonvacuous=(r.covers_total > 0 and r.covers_sat == r.covers_total))
            if h["expect"] == "held" and r.status == "failed":
                u["failed_checks"] = r.failed_checks[:6]
                log(f"  {h['name']}: FAILED checks {r.failed_checks[:3]} -> native replay")
                ok, detail = kani.playback(cwd, tgt, r.name, features=feats if where == "infile" else None,
                                           no_default_features=ndf if where == "infile" else False,
                                           log_path=os.path.join(VERIF, "evidence", "logs", f"{prop}-{h['name']}-playback.log"))
                if ok is not True and where == "ext":
                    from . import replay_more
                    ok2, d2 = replay_more.replay_for_harness(h["name"], root)
                    if ok2 is not None:
                        ok, detail = ok2, (detail or "") + "\n\n" + d2
                u["replay_reproduced"] = ok
                rp = os.path.join(VERIF, "evidence", "replays", f"{prop}-{h['name']}.txt")
                os.makedirs(os.path.dirname(rp), exist_ok=True)
                with open(rp, "w") as f:
                    f.write(f"property={prop}\nharness={r.name}\nbuild={cfg}\nfailed_checks={json.dumps(r.failed_checks[:10])}\n"
                            f"reproduced_natively={ok}\n\n"
                            "# Kani concrete playback of the solver's counterexample (a unit test that re-runs the harness body\n"
                            "# against the real crate with the solver's values), and its native run:\n\n" + (detail or ""))
                u["replay"] = rp
                replays.append((h["name"], ok, rp, r.failed_checks[:3]))
            units.append(u)


def stale_overlay_files(out, where):
    """Overlay files named in compile errors (`--> src/<file>:<line>`), relative to overlay/infile (or ext src)."""
    import re
    bad = set()
    infile_dir = os.path.join(VERIF, "overlay", "infile")
    ext_dir = os.path.join(VERIF, "harness_ext", "src")
    lines = out.splitlines()
    for i, l in enumerate(lines):
        if not l.startswith("error"):
            continue
        for j in range(i + 1, min(i + 6, len(lines))):
            m = re.match(r"\s*--> (?:src/)?(\S+?\.rs):(\d+)", lines[j])
            if m:
                rel = m.group(1)
                if where == "infile" and os.path.exists(os.path.join(infile_dir, rel)):
                    bad.add(rel)
                elif where == "ext" and os.path.exists(os.path.join(ext_dir, os.path.basename(rel))):
                    bad.add(os.path.basename(rel))
                break
    return bad


def classify(prop, units, known):
    """Returns (exit_code, violation_lines, known_lines, inconclusive_notes)."""
    violations, known_lines, inconc = [], [], []
    kf = [k for k in known.get("findings", []) if k.get("property") == prop and k.get("status") == "known"]
    for u in units:
        st = u["status"]
        if st == "held":
            continue
        if st == "failed":
            rep = u.get("replay_reproduced")
            if rep is True:
                hit = [k for k in kf if k.get("unit") == u["name"] and k.get("site", "") in json.dumps(u.get("failed_checks", u.get("model", "")))]
                if hit:
                    known_lines.append(f"KNOWN-FINDING: property={prop} {hit[0].get('what')}")
                else:
                    violations.append(f"VIOLATION property={prop} replay={u.get('replay')}")
            elif rep is False:
                inconc.append(f"{u['name']}: solver counterexample did NOT reproduce natively (encoding/stub artefact) — see {u.get('replay')}")
            else:
                inconc.append(f"{u['name']}: counterexample could not be replayed — see {u.get('replay')}")
        else:
            inconc.append(f"{u['name']}: {st} {u.get('note', '')}")
    code = 1 if violations else (2 if inconc else 0)
    return code, violations, known_lines, inconc


def main(argv=None):
    ap = argparse.ArgumentParser()
    ap.add_argument("prop")
    ap.add_argument("--tier", default=os.environ.get("VERIF_TIER", "quick"), choices=["quick", "thorough"])
    ap.add_argument("--jobs", type=int, default=int(os.environ.get("VERIF_JOBS", "16")))
    ap.add_argument("--keep", action="store_true")
    ap.add_argument("--replay", default=None)
    a = ap.parse_args(argv)
    if a.replay:
        print(open(a.replay).read())
        return 0
    prop, tier = a.prop, a.tier
    seed = int(os.environ.get("VERIF_SEED", "0") or 0)
    t0 = time.time()
    os.makedirs(os.path.join(VERIF, "evidence", "logs"), exist_ok=True)
    root = scratch.scratch_root()
    units, replays, assumptions, extra = [], [], [], {}
    try:
        from . import propdefs
        pd = propdefs.PROPS[prop]
        assumptions += pd.get("assumptions", [])
        extra["bounds"] = pd.get("bounds", {}).get(tier, pd.get("bounds", {}).get("quick", ""))
        extra["outside_claim"] = pd.get("outside", [])
        extra["tree_hash"] = scratch.tree_hash(scratch.REPO)
        tasks = []
        with cf.ThreadPoolExecutor(max_workers=4) as ex:
            hs_in = harnesses.select(harnesses.infile_harnesses(), prop, tier)
            hs_ex = harnesses.select(harnesses.ext_harnesses(), prop, tier)
            n_eng = (1 if hs_in else 0) + (1 if hs_ex else 0) + (1 if pd.get("mirsym") else 0)
            jobs = max(2, a.jobs // max(1, n_eng))
            if hs_in:
                tasks.append(ex.submit(run_kani_units, prop, tier, root, hs_in, "infile", units, replays, jobs))
            if hs_ex:
                tasks.append(ex.submit(run_kani_units, prop, tier, root, hs_ex, "ext", units, replays, jobs))
            if pd.get("mirsym"):
                from . import mirunits
                tasks.append(ex.submit(mirunits.run, prop, tier, seed, root, pd["mirsym"], units, replays))
            if pd.get("extra"):
                for fn in pd["extra"]:
                    tasks.append(ex.submit(fn, prop, tier, seed, root, units, replays))
            for t in tasks:
                t.result()
        if not units:
            units.append({"engine": "none", "name": "no-units", "status": "error", "note": "no unit selected", "obligations": 0})
        known = load_known()
        code, violations, known_lines, inconc = classify(prop, units, known)
    except Exception as e:
        traceback.print_exc()
        units.append({"engine": "driver", "name": "exception", "status": "error", "note": repr(e), "obligations": 0})
        code, violations, known_lines, inconc = 2, [], [], [f"driver exception: {e!r}"]
    finally:
        if not a.keep:
            scratch.cleanup(root)
        else:
            log("kept scratch", root)
    wall = time.time() - t0
    for u in units:
        assumptions += [f"stub: {s}" for s in u.get("stubs", [])]
    assumptions = sorted(set(assumptions))
    evidence.write(prop, tier, seed, units, wall, len(violations), assumptions, extra, inconc)
    for u in units:
        print(f"  [{u['status']:7}] {u['engine']:12} {u['name']}  obligations={u.get('obligations', 0)} solver={u.get('solver_s', 0):.1f}s {u.get('note', '')}")
    for l in known_lines:
        print(l)
    for l in inconc:
        print("INCONCLUSIVE:", l)
    for l in violations:
        print(l)
    print(f"{prop} {tier}: exit {code} in {wall:.0f}s; units={len(units)}")
    return code
