"""Per-property definitions: which engines/units decide it, bounds, assumptions, what is outside the claim.
Kani harnesses are attached to properties by their `//@ props=` annotation in the overlay; this table adds the
MIR-engine query sets, bounds text and assumptions."""

COMMON_KANI = [
    "Kani 0.68 / CBMC 6.11 model of Rust semantics (sequentially consistent atomics, no unwinding: a panic ends the path)",
    "std::fmt::format stubbed to return an empty String in Kani harnesses: message text is outside every Kani claim",
    "unwinding assertions on: a too-small loop bound is reported as inconclusive, never as success",
]

PROPS = {
    "C03": {
        "bounds": {"quick": "CallCounter::verify: all 2^64 x 2^64 x 3 (minimum, actual, exactness); FnMocker::verify: 2 patterns, arbitrary counters; teardown: method table iteration unrolled to <=3"},
        "assumptions": COMMON_KANI,
        "outside": ["rendered message text", "minimum+1 overflow for n_times(usize::MAX).then()"],
    },
}
