"""Per-property definitions: which engines/units decide it, bounds, assumptions, what is outside the claim.
Kani harnesses are attached to properties by their `//@ props=` annotation in the overlay; this table adds the
MIR-engine query sets, bounds text and assumptions."""

COMMON_KANI = [
    "Kani 0.68 / CBMC 6.11 model of Rust semantics (sequentially consistent atomics, no unwinding: a panic ends the path)",
    "std::fmt::format stubbed to return an empty String in Kani harnesses: message text is outside every Kani claim",
    "unwinding assertions on: a too-small loop bound is reported as inconclusive, never as success",
]

PROPS = {
    "C03": {
        "bounds": {"quick": "CallCounter::verify: all 2^64 x 2^64 x 3 (minimum, actual, exactness); FnMocker::verify: 2 patterns, arbitrary counters; teardown: method table iteration unrolled to <=3"},
        "assumptions": COMMON_KANI,
        "outside": ["rendered message text", "minimum+1 overflow for n_times(usize::MAX).then()"],
    },
    "C01": {
        "bounds": {"quick": "scan: K=3 patterns, all 27 verdict tables {reject,accept,error}^3, arbitrary 64-bit prior counts and ordered index; one step (state = counters, arbitrary => histories of any length); matcher downcast: all u8 x u8",
                   "thorough": "adds K=4 and the eval_dyn step with a 1-entry method table"},
        "assumptions": COMMON_KANI + ["predicates are modelled as an arbitrary verdict per pattern (the link matcher closure = predicate is C06)",
                                      "instantiation: TestFn (Inputs = u8, OutputKind = Owning<u8>) and TestFn2 (u16)"],
        "outside": ["K > 4 patterns", "the matching! macro (C06)"],
    },
    "C02": {
        "bounds": {"quick": "segment lookup: S<=4 segments, repeat counts all values < 2^60 including 0, call index all 2^64; next_responder from an arbitrary counter value"},
        "assumptions": COMMON_KANI,
        "outside": ["sum of repeat counts >= 2^63", "more than 4 segments"],
    },
    "C04": {
        "bounds": {"quick": "owner lookup and one ordered step: 3 patterns of the called method with arbitrary increasing disjoint 64-bit slot ranges (empty ranges allowed), arbitrary global index, arbitrary prior counts"},
        "assumptions": COMMON_KANI + ["std::thread::current()/panicking() replaced by the overlay's std_shim (Kani cannot compile thread::current())"],
        "outside": ["more than 3 ordered patterns per method in one step harness"],
    },
}
