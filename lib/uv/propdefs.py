"""Per-property definitions: which engines/units decide it, bounds, assumptions, what is outside the claim.
Kani harnesses are attached to properties by their `//@ props=` annotation in the overlay; this table adds the
MIR-engine query sets, bounds text and assumptions."""

COMMON_KANI = [
    "Kani 0.68 / CBMC 6.11 model of Rust semantics (sequentially consistent atomics, no unwinding: a panic ends the path)",
    "std::fmt::format stubbed to return an empty String in Kani harnesses: message text is outside every Kani claim",
    "unwinding assertions on: a too-small loop bound is reported as inconclusive, never as success",
]

COMMON_MIR = [
    "E1: symbolic execution of rustc's MIR (-Zunpretty=mir, regenerated from /repo on every run) by /verif/lib/uv/mirsym; integers are 64-bit bit-vectors, overflow checks kept as panic exits",
    "std callees are replaced by summaries listed in lib/uv/mirsym/builtins.py (Vec, Option/Result, BTreeMap over a harness-fixed number of entries, atomics as sequentially consistent cells, Mutex as an atomic block); an unknown callee on any path makes the unit inconclusive",
    "formatting calls are opaque (message text outside the claim); MIR cleanup (unwind) blocks are not executed",
]

PROPS = {
    "C03": {
        "mirsym": ["counter_verify", "fn_mocker_verify", "teardown", "teardown_wrappers", "assembler", "builder_chains", "tuples", "call_path", "eval_generic", "drop_flags", "induce_panic"],
        "bounds": {"quick": "CallCounter::verify: all 2^64 x 2^64 x 3 (minimum, actual, exactness); FnMocker::verify: 2 patterns, arbitrary counters; teardown: method table iteration unrolled to <=3"},
        "assumptions": COMMON_KANI + COMMON_MIR,
        "outside": ["rendered message text", "minimum+1 overflow for n_times(usize::MAX).then()"],
    },
    "C01": {
        "mirsym": ["call_path", "eval_dyn", "assembler", "construction", "tuples", "eval_generic"],
        "bounds": {"quick": "scan: K=3 patterns, all 27 verdict tables {reject,accept,error}^3, arbitrary 64-bit prior counts and ordered index; one step (state = counters, arbitrary => histories of any length); matcher downcast: all u8 x u8",
                   "thorough": "adds K=4 and the eval_dyn step with a 1-entry method table"},
        "assumptions": COMMON_KANI + ["predicates are modelled as an arbitrary verdict per pattern (the link matcher closure = predicate is C06)",
                                      "instantiation: TestFn (Inputs = u8, OutputKind = Owning<u8>) and TestFn2 (u16)"],
        "outside": ["K > 4 patterns", "the matching! macro (C06)"],
    },
    "C02": {
        "mirsym": ["builder_chains", "call_path", "eval_dyn", "eval_generic", "output_containers", "schedules", "generated_forwarding", "assembler", "tuples"],
        "bounds": {"quick": "segment lookup: S<=4 segments, repeat counts all values < 2^60 including 0, call index all 2^64; next_responder from an arbitrary counter value"},
        "assumptions": COMMON_KANI + COMMON_MIR + ["builder chains: IntoReturn / IntoReturnOnce / IntoReturner conversions are environment calls that record which conversion ran (their behaviour is decided under C12/C17)"],
        "outside": ["sum of repeat counts >= 2^63", "more than 4 segments"],
    },
    "C04": {
        "mirsym": ["assembler", "call_path", "builder_chains", "tuples", "eval_dyn"],
        "bounds": {"quick": "owner lookup and one ordered step: 3 patterns of the called method with arbitrary increasing disjoint 64-bit slot ranges (empty ranges allowed), arbitrary global index, arbitrary prior counts"},
        "assumptions": COMMON_MIR + COMMON_KANI + ["std::thread::current()/panicking() replaced by the overlay's std_shim (Kani cannot compile thread::current())"],
        "outside": ["more than 3 ordered patterns per method in one step harness"],
    },
    "C09": {
        "mirsym": ["teardown", "drop_flags", "teardown_wrappers", "delegators", "induce_panic", "fn_mocker_verify", "counter_verify", "tuples"],
        "bounds": {"quick": "one lifecycle step from an arbitrary state: all values of (original_instance, torn_down, verify_in_drop, panicking(), strong_count (64-bit), thread equality, recorded-error count, per-method error counts); method table M=0..2 (thorough 3)"},
        "assumptions": COMMON_MIR + ["Arc::strong_count, thread::panicking(), ThreadId comparison are environment variables (arbitrary values within their contracts)",
                                     "FnMocker::verify summarised at this level as 'appends n_i >= 0 errors' (decided separately under C03)"],
        "outside": ["real Arc reference counting and real thread identity (axioms; exercised only by the native replay)", "event sequences are covered inductively: one step from an arbitrary state"],
    },
    "C11": {
        "mirsym": ["teardown", "drop_flags", "locked_closures", "call_path", "eval_generic"],
        "bounds": {"quick": "all inputs of teardown/Drop (see C09); every MutexIsh::locked call site in the crate's MIR"},
        "assumptions": COMMON_MIR + ["thread::panicking() is an environment boolean; a panic is a terminal outcome of the path (unwinding is not executed symbolically)"],
        "outside": ["executing an unwind (the native replay does: child processes must exit 101, not SIGABRT)", "after a caught user panic the mock remains usable: argued from C01/C04 step facts"],
    },
    "C08": {
        "mirsym": ["induce_panic", "teardown", "teardown_wrappers", "display_call", "output_containers", "eval_generic", "call_path", "eval_dyn", "drop_flags", "delegators"],
        "bounds": {"quick": "induce_panic / handle_error / Continuation::report from an arbitrary state with any error value; teardown for all inputs (see C09)"},
        "assumptions": COMMON_MIR + ["the Mutex is an atomic block (its internals are trusted)"],
        "outside": ["errors racing from several threads", "message text", "the no_std `panicked` flag"],
    },
    "C07": {
        "mirsym": ["eval_dyn", "call_path", "generated_forwarding", "delegators", "eval_generic", "induce_panic"],
        "bounds": {"quick": "the complete decision table of eval_dyn: method table M=0..2 entries with symbolic keys and symbolic called type id x has_default_impl x partial_by_default x fallback mode x scan result {none, pattern 0, pattern 1, error} x responder available; one call from an arbitrary state"},
        "assumptions": COMMON_MIR + ["match_call_pattern / next_responder are replaced by their contracts, which the Kani units c01_scan_first_match, c04_in_order_step, c02_next_responder_step decide on the compiled code"],
        "outside": ["the generated match arms that act on Unmock / CallDefaultImpl (C15/C16)", "argument values (the scan result is symbolic instead)"],
    },
    "C14": {
        "mirsym": ["assembler", "tuples", "construction", "builder_chains"],
        "bounds": {"quick": "tuple impls of every arity 2..16 (element results symbolic); every sequence of <=3 pushes (thorough 4) with symbolic method/mode/exactness/count/responder_error; Each::deconstruct with 0..2 patterns; from_assembler for Ok/Err"},
        "assumptions": COMMON_MIR + ["the element clauses of a tuple are environment calls returning an arbitrary Result (nesting follows by structural induction)"],
        "outside": ["the two compile-time rejections (type checker): ordered patterns only with exact counts, then() only after an exact count"],
    },
    "C18": {
        "mirsym": ["assembler", "drop_flags", "eval_dyn", "statics", "induce_panic", "construction", "teardown", "delegators", "tuples", "call_path", "fn_mocker_verify"],
        "bounds": {"quick": "every sequence of <=3 pushes (thorough 4) over 2 (thorough 3) methods; adjacent-swap lemma at every position; Clone::clone data flow; eval_dyn table lookup with symbolic keys"},
        "assumptions": COMMON_MIR + ["BTreeMap modelled as a finite map; iteration order abstracted (no decision in the crate depends on it except the wording of an error message)"],
        "outside": ["generic instantiation distinctness is a property of TypeId (trusted)", "message text"],
    },
    "C12": {
        "mirsym": ["builder_chains", "eval_generic", "schedules", "output_containers", "call_path", "drop_flags", "teardown", "tuples"],
        "bounds": {"quick": "single-use value: all u8 payloads, 0..4 requests, then holder dropped (drop counter); repeatable value: 0..3 requests (clone + drop counters); composites (Option/Result/tuple/Vec/Poll over such leaves) in the external harness crate"},
        "assumptions": COMMON_KANI + ["sequential requests only: the race between threads is reduced to the atomic take() under the lock (MutexIsh::locked is an atomic block, see C10/C11 units)"],
        "outside": ["the builder refusing at compile time to quantify a non-Clone value (a fact about rustc's type checker)", "real threads racing for the value"],
    },
    "C13": {
        "mirsym": ["delegators", "chain_schedules", "drop_flags", "teardown"],
        "bounds": {"quick": "value chain: 2 shared pushes (type of the second symbolic), exclusive push after a shared one followed by a shared one, drop of chains of 0..2 values; thorough: 3 shared pushes; delegation helper accessors as_ref/as_mut: arbitrary instance, helper cell symbolically empty or filled"},
        "assumptions": COMMON_KANI + COMMON_MIR + ["once_cell::sync::OnceCell replaced (cfg(kani) only) by once_cell's own unsync cell behind the same API (Kani cannot compile the std implementation): single-threaded claim"],
        "outside": ["thousands of values (bound: 3)", "concurrent pushes through a shared &Unimock (the cell library is trusted)", "recursive drop of very long chains in push_value_mut (observation in DESIGN section 6)"],
    },
    "C06": {
        "bounds": {"quick": "pattern family G6 (17 members quick / 22 thorough, listed in harness_ext/src/c06.rs with their argument types): for every member, ALL argument values (integers full range, strings from a 3-4 literal pool, slices of length <= 3), diagnostics off and on",
                   "thorough": "adds 5 more members (5 arguments, enum struct variants, nested option/slice, newtype string, ne-only)"},
        "assumptions": COMMON_KANI + ["the reference is an independently written Rust match / == / != over the same arguments (printed by tools/gen_c06.py)",
                                      "the report list of MismatchReporter is created with reserved capacity under cfg(kani) (same contents)"],
        "outside": ["patterns outside family G6 (the macro runs inside rustc: programs are covered per instantiation)", "3 or more top-level alternatives do not compile at all in this version (observed, not a soundness issue)"],
    },
    "C17": {
        "mirsym": ["output_containers", "builder_chains", "eval_generic", "call_path"],
        "bounds": {"quick": "return-type family (16 methods of one generated trait: owned, Option<owned>, &T, &str, &'static T, Option<&T>, Option<&str>, Result<&T,E>, Result<&[T],NonClone>, Vec<&T> with 0/1/2 elements, 2- and 3-tuples, Poll<Option<&T>>, Poll<Result<&T,Clone>>, Vec<Result<&T,NonClone>>, Option<Result<&T,E>>); output kind = the one the macro chose; every variant, all leaf values, two or three requests"},
        "assumptions": COMMON_KANI + COMMON_MIR + ["element counts are constants per harness (0, 1, 2): a Vec of symbolic length is an allocation of symbolic size"],
        "outside": ["return types outside the family; element counts above 3; nesting depth above 3"],
    },
    "C10": {
        "mirsym": ["schedules", "call_path", "chain_schedules", "induce_panic", "eval_generic", "teardown", "fn_mocker_verify", "tuples"],
        "bounds": {"quick": "symbolic schedule (one decision per atomic step) of threads x calls in {2x2, 3x1, 3x2} unordered and {2x2, 3x1} ordered on one shared pattern; thorough: up to 4x2 / 3x3, cross-checked with cvc5",
                   "thorough": "threads x calls in {2x2, 2x3, 3x2, 4x2, 3x3} for unordered calls and {2x2, 2x3, 3x2} for ordered calls (two atomic steps each; ordered 4x2 / 3x3 measured: no answer in 1500 s), z3 and cvc5 must agree"},
        "assumptions": COMMON_MIR + ["sequentially consistent memory (the code uses SeqCst); each atomic operation / lock-protected block is one indivisible step",
                                     "step programs (operations, operand expressions, the expression used as position) are extracted from the MIR of an accepted call; counters are 16-bit wrapping words in the interleaving model",
                                     "std::sync::Mutex / spin::Mutex internals are trusted"],
        "outside": ["hardware memory models weaker than SC", "the randomized real-thread stress half of the quantifier (used only as native replay of a solver counterexample)", "more than 4 threads x 3 calls"],
    },
    "C05": {
        "mirsym": ["eval_generic", "generated_forwarding"],
        "bounds": {"quick": "trait-shape family (8 shapes quick): &self with (u8, &mut u16, &str); 5 mixed parameters; Rc<Self>; trait-level generic at u16; async fn with &mut parameter; RPIT future; flattened api — each for ALL argument values; one or two calls per shape; scripted evaluator in place of the runtime",
                   "thorough": "same family (the &mut self / Pin<&mut Self> / by-value shapes are disabled: Kani does not terminate on their polonius-based expansion / teardown within 10 minutes)"},
        "assumptions": COMMON_KANI + COMMON_MIR + ["unimock::private::eval is replaced (kani::stub) by a per-harness scripted evaluator that returns Continuation::Answer(the harness' typed answer function) with the inputs untouched; that the real eval hands the inputs back unchanged is the E1 unit eval_generic"],
        "outside": ["shapes outside the family, in particular &mut self, Pin<&mut Self> and by-value receivers (tool limit, measured)", "method-level generics and impl-Trait parameters", "async runtimes (futures are polled by hand with a no-op waker)"],
    },
    "C15": {
        "mirsym": ["eval_dyn", "delegators", "teardown", "generated_forwarding", "eval_generic"],
        "bounds": {"quick": "&self provided method whose body calls a required method twice: all argument values, one call; decision table of eval_dyn for unmentioned / mentioned methods with a default body (see C07)"},
        "assumptions": COMMON_KANI + COMMON_MIR + ["scripted evaluator: first evaluation answers CallDefaultImpl, nested ones answer with a typed function and record the state identity they were given",
                                                   "once_cell::sync::OnceCell replaced by once_cell's unsync cell under cfg(kani) (helper initialisation)"],
        "outside": ["&mut self, by-value, Rc/Arc and Pin<&mut Self> receivers (Kani: teardown of the helper clone does not terminate; their release order is decided by the C09/C11 teardown unit)", "that counters/slots are then shared follows from the shared state identity (same step function, C01/C04)"],
    },
    "C16": {
        "mirsym": ["eval_dyn", "induce_panic", "generated_forwarding", "eval_generic", "call_path", "delegators"],
        "bounds": {"quick": "unmock_with in three forms (skip `_`, path, path(params)) at list positions 0..2 of a 3-method trait, sync and async: all argument values; recursion depth 1 through the mock; fall-through decisions: eval_dyn table (C07); missing function -> CannotUnmock recorded: induce_panic unit"},
        "assumptions": COMMON_KANI + COMMON_MIR + ["scripted evaluator answering Continuation::Unmock"],
        "outside": ["recursion depth > 1", "trait shapes outside the family"],
    },
    "C19": {
        "mirsym": ["call_path", "eval_dyn", "counter_verify", "display_call", "induce_panic", "mismatch_msg", "expected_pattern", "teardown", "fn_mocker_verify"],
        "bounds": {"quick": "mismatch positions: the guard-free single-alternative members of pattern family G6 (C06 harnesses, diagnostics on) for all argument values; debug_inputs for 4 method shapes; pattern text/location for 3 invocations; which pattern index / operands an error names: E1 units"},
        "assumptions": COMMON_KANI + COMMON_MIR,
        "outside": ["rendered message text (formatting is stubbed under Kani and opaque for E1): wording, separators, '?' glyph", "file!()/line!() values beyond equality with the invocation site"],
    },
    "C20": {
        "mirsym": ["mirror_wiring", "eval_dyn", "delegators", "assembler", "fn_mocker_verify", "call_path", "eval_generic", "teardown"],
        "bounds": {"quick": "every trait mirrored under src/mock (core, std, embedded-hal 1, tokio 1, futures-io 0.3: all features on) and every method of each: entry-point wiring, provided/required classification against the UPSTREAM trait definition (rust-src / cargo registry sources), helper impl = required methods only, MockFnInfo flags; fall-through decisions for unmentioned provided methods: eval_dyn table"},
        "assumptions": COMMON_MIR + ["upstream trait definitions are read from the installed rust-src and the cargo registry sources (the versions Cargo.lock pins)",
                                     "structural obligations over the MIR of the generated impls (callee identity per method), no symbolic inputs are needed for wiring"],
        "outside": ["the differential half of the property (driving write_all / read_exact / read_to_end / read_line / Hasher::write_u32 / delay_ms / format! over scripted required methods and comparing with a plain struct): the bundled traits take &mut self, on whose polonius-based expansion Kani does not terminate, and the upstream provided bodies (std::io with io::Error) are out of reach of both engines (measured, DESIGN section 1)"],
    },
}
