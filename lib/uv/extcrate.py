"""Materialise the external Kani harness crate (path dependency on the scratch copy with the overlay applied)."""
import os, shutil
from . import scratch

VERIF = scratch.VERIF

FEATURES = {
    "std": "",
    "mocks": ', features = ["mock-core", "mock-std", "mock-embedded-hal-1"]',
}


def materialise(work, repo, cfg, skip=()):
    ext = os.path.join(work, "ext")
    shutil.rmtree(ext, ignore_errors=True)
    os.makedirs(os.path.join(ext, "src"))
    t = open(os.path.join(VERIF, "harness_ext", "Cargo.toml.tmpl")).read()
    open(os.path.join(ext, "Cargo.toml"), "w").write(t.replace("@REPO@", repo).replace("@FEATURES@", FEATURES.get(cfg, "")))
    shutil.copy(os.path.join(repo, "Cargo.lock"), os.path.join(ext, "Cargo.lock"))
    src = os.path.join(VERIF, "harness_ext", "src")
    mods = []
    for f in sorted(os.listdir(src)):
        if not f.endswith(".rs") or f == "lib.rs" or f in skip:
            continue
        # a file may be restricted to one build config by a first line `//@cfg mocks`
        first = open(os.path.join(src, f)).readline()
        want = first.split()[1] if first.startswith("//@cfg") else "std"
        if want != cfg:
            continue
        shutil.copy(os.path.join(src, f), os.path.join(ext, "src", f))
        mods.append(f[:-3])
    with open(os.path.join(ext, "src", "lib.rs"), "w") as out:
        out.write("#![allow(dead_code, unused_imports, unused_variables, non_snake_case, unexpected_cfgs)]\nextern crate unimock as umk;\n")
        for m in mods:
            out.write(f"#[cfg(kani)]\npub mod {m};\n")
    return ext
