"""E1 unit over MACRO-GENERATED code: the trait-shape family in family_crate/ is expanded by the real #[unimock] macro, the
MIR of the generated `impl Trait for Unimock` methods is dumped, and every method body is executed symbolically with
`unimock::private::eval` as an environment call that may answer with ANY evaluation outcome.

Decides, per method and for every outcome (C05 / C07 / C15 / C16):
  * exactly one evaluation, of the method's own MockFn, with the receiver and the caller's arguments in declaration order;
  * Return(v)                     -> v is returned unchanged;
  * Continue(Answer(f), inputs')  -> f(receiver, inputs' in order) is called once and its result returned unchanged;
  * Continue(Unmock, inputs')     -> the function registered in unmock_with for THIS list position is called once with the
                                     mock and the arguments (or the listed parameter expressions); none registered -> report();
  * Continue(CallDefaultImpl, ..) -> the trait's default body runs on the delegation helper with the arguments; no default
                                     body -> report().
The expected column (which function, default body or not) is read from the trait declarations in family_crate/src/lib.rs,
i.e. from what the user wrote, not from the generated code."""
import os, re, shutil, subprocess, time
import z3

from . import scratch
from .mirsym.engine import Engine, Lazy, Unsupported, UnknownCallee, Panic
from .mirsym.values import *
from .mirunits import Unit, lazy_adt, opaque_calls, events, all_callees

VERIF = scratch.VERIF


def dump_family_mir(root):
    work = os.path.join(root, "family")
    repo = os.path.join(work, "repo")
    if not os.path.exists(repo):
        scratch.copy_repo(work)
    crate = os.path.join(work, "crate")
    os.makedirs(os.path.join(crate, "src"), exist_ok=True)
    t = open(os.path.join(VERIF, "family_crate", "Cargo.toml.tmpl")).read().replace("@REPO@", repo)
    open(os.path.join(crate, "Cargo.toml"), "w").write(t)
    src = open(os.path.join(VERIF, "family_crate", "src", "lib.rs")).read()
    shutil.copy(os.path.join(repo, "Cargo.lock"), os.path.join(crate, "Cargo.lock"))
    t0 = time.time()
    dropped = []
    for attempt in range(4):
        open(os.path.join(crate, "src", "lib.rs"), "w").write(src)
        p = subprocess.run(["cargo", "+nightly", "rustc", "--offline", "--lib", "--target-dir", os.path.join(work, "target"), "--",
                            "-Zunpretty=mir", "-C", "debug-assertions=off", "-C", "overflow-checks=on"], cwd=crate,
                           stdout=subprocess.PIPE, stderr=subprocess.PIPE, text=True, env=dict(os.environ, CARGO_NET_OFFLINE="true"))
        if p.returncode == 0 and "fn " in p.stdout:
            DROPPED_TRAITS[:] = dropped
            return p.stdout, crate, time.time() - t0
        # a trait of the family that no longer compiles against this tree is taken out (and reported: the unit is then at most
        # inconclusive for it); the rest of the family is still analysed
        bad = traits_at_error_lines(src, p.stderr)
        if not bad:
            break
        for name in bad:
            src = re.sub(rf"(?s)//@trait-begin {name}\n.*?//@trait-end {name}\n", "", src)
            dropped.append(name)
    raise RuntimeError("family MIR dump failed (the family no longer compiles against this tree):\n" + p.stderr[-2500:])


DROPPED_TRAITS = []


def traits_at_error_lines(src, err):
    lines = []
    ls = err.splitlines()
    for i, l in enumerate(ls):
        if l.startswith("error"):
            for j in range(i + 1, min(i + 6, len(ls))):
                m = re.match(r"\s*--> src/lib\.rs:(\d+)", ls[j])
                if m:
                    lines.append(int(m.group(1)))
                    break
    out = []
    cur = None
    for n, l in enumerate(src.split("\n"), 1):
        m = re.match(r"//@trait-begin (\w+)", l)
        if m:
            cur = m.group(1)
        if re.match(r"//@trait-end", l):
            cur = None
        if n in lines and cur and cur not in out:
            out.append(cur)
    return out


def parse_family(src):
    """{trait: {"unmock": [entry per fn item], "methods": [(name, nparams, has_body, has_receiver)]}} from the declarations."""
    out = {}
    for m0 in re.finditer(r"#\[unimock\(", src):
        pd, q0 = 1, m0.end()
        while pd:
            pd += {"(": 1, ")": -1}.get(src[q0], 0)
            q0 += 1
        attrs = src[m0.end():q0 - 1]
        m = re.match(r"\]\s*pub\s+trait\s+(\w+)[^{]*\{", src[q0:])
        if not m:
            continue
        name = m.group(1)
        i = q0 + m.end() - 1
        depth, j = 0, i
        while j < len(src):
            if src[j] == "{":
                depth += 1
            elif src[j] == "}":
                depth -= 1
                if depth == 0:
                    break
            j += 1
        body = src[i + 1:j]
        um = re.search(r"unmock_with\s*=\s*\[(.*)\]", attrs)
        unmock = []
        if um:
            from .mirsym.parse import split_top
            for e in split_top(um.group(1)):
                e = e.strip()
                if e == "_":
                    unmock.append(None)
                else:
                    mm = re.match(r"([\w:]+)\s*(?:\((.*)\))?$", e)
                    unmock.append((mm.group(1), None if mm.group(2) is None else [x.strip() for x in mm.group(2).split(",") if x.strip()]))
        methods = []
        d = 0
        k = 0
        while k < len(body):
            c = body[k]
            if c == "{":
                d += 1
            elif c == "}":
                d -= 1
            elif d == 0 and re.match(r"(async\s+)?fn\s+\w+", body[k:]) and (k == 0 or not (body[k - 1].isalnum() or body[k - 1] == "_")):
                mm = re.match(r"(?:async\s+)?fn\s+(\w+)\s*(<[^>]*>)?\s*\(", body[k:])
                q = k + mm.end()
                pd = 1
                while pd:
                    if body[q] == "(":
                        pd += 1
                    elif body[q] == ")":
                        pd -= 1
                    q += 1
                params = body[k + mm.end():q - 1]
                from .mirsym.parse import split_top
                plist = [x.strip() for x in split_top(params) if x.strip()]
                has_recv = bool(plist) and re.match(r"(&\s*(mut\s+)?)?self\b|self\s*:", plist[0]) is not None
                names = [re.match(r"(?:mut\s+)?(\w+)\s*:", x).group(1) for x in plist[1 if has_recv else 0:]]
                r = q
                while body[r] not in ";{":
                    r += 1
                # `&mut T<'x>` parameters cannot be represented in MockFn::Inputs: the matcher is shown the documented
                # placeholder `unimock::Impossible`, the answer function still receives the caller's own borrow
                imposs = [bool(re.match(r"(?:mut\s+)?\w+\s*:\s*&\s*(?:'\w+\s+)?mut\s+[\w:]+\s*<[^>]*'", x)) for x in plist[1 if has_recv else 0:]]
                methods.append({"name": mm.group(1), "params": names, "has_body": body[r] == "{", "has_receiver": has_recv, "impossible": imposs})
                k = r
                continue
            k += 1
        fl = re.search(r"api\s*=\s*\[([^\]]*)\]", attrs)
        out[name] = {"unmock": unmock, "methods": methods, "flat_api": [x.strip() for x in fl.group(1).split(",")] if fl else None}
    return out


def unit_generated_forwarding(eng_unused, tier, prop, root=None):
    mir, crate, dt = dump_family_mir(root)
    eng = Engine(mir, crate)
    # enum / struct layouts of the library itself (Eval, Continuation, ...) are read from the scratch copy's sources
    eng.src_root = os.path.join(os.path.dirname(crate), "repo")
    eng._index_sources()
    eng.src_root = crate
    eng.enums.setdefault("PoloniusResult", ["Borrowing", "Owned"])
    eng.enums.setdefault("Dependent", ["Return"])
    fam = parse_family(open(os.path.join(crate, "src", "lib.rs")).read())
    u = Unit(eng, "generated-forwarding", ["every `impl <Trait> for Unimock` method the macro generates for family_crate/src/lib.rs"],
             "trait-shape family: receivers {&self, &mut self, self, Rc<Self>, Arc<Self>, Pin<&mut Self>} x arities 0..6 x parameter kinds {owned, &T, &mut T, &'a mut T, &str, &[T], impl Trait, trait generic} x {default body} x {unmock_with: path, path(params), _}; every evaluation outcome")
    for name in DROPPED_TRAITS:
        u.errors.append(f"family trait {name} no longer compiles against this tree (not analysed)")
    hs = []

    def add(rx, h):
        it_ = (re.compile(rx), h)
        eng.handlers.insert(0, it_)
        hs.append(it_)

    def ident(v, depth=0):
        """identity of a value: name of the lazily initialised object / tagged object it denotes (through references)."""
        if depth > 6:
            return "?"
        if isinstance(v, Opaque):
            return v.name
        if isinstance(v, Ref):
            return ident(v.cell.val, depth + 1) if v.cell.val is not None else v.cell.name
        if isinstance(v, Adt):
            if v.tag:
                return str(v.tag[-1]) if v.tag[0] in ("leaf",) else str(v.tag)
            if v.lazy is not None:
                return v.lazy.name
            if v.fields and len(v.fields) == 1:       # Pin<P>, newtype wrappers
                return ident(next(iter(v.fields.values())).val, depth + 1)
        if isinstance(v, (Int, Bool)):
            return str(z3.simplify(v.e))
        return type(v).__name__

    def leaves(v):
        """flatten the inputs value passed to eval into the identities of its elements, in order."""
        if isinstance(v, Adt) and v.ty == "(tuple)":
            return [ident(v.fields[k].val) for k in sorted(v.fields, key=lambda kk: kk[1])]
        if isinstance(v, Unit.__class__) or v is UNIT:
            return []
        return [ident(v)]

    state = {}

    def h_eval(call):
        recv, inputs = call.argv[0], call.argv[1]
        k = eng.decide(call.m, ("eval", call.fr.bb), [eng.named("eval.outcome", 64) == i for i in range(4)])
        n = len(leaves(inputs))
        from .mirsym.parse import split_top as _st
        mockfn = _st(call.callee[call.callee.find("eval::<") + 7:].rsplit(">", 1)[0])[-1].strip()
        call.m.event("eval", mockfn, ident(recv), tuple(leaves(inputs)), k)
        if k == 0:
            o = Adt("Output", None)
            o.tag = ("leaf", "the_output")
            return eng.mk_enum("Eval", "Return", o)
        # hand back fresh, distinguishable input values r0..r(n-1) in the same shape
        def fresh(i):
            a = Adt("Rebound", None)
            a.tag = ("leaf", f"r{i}")
            return a
        if isinstance(inputs, Adt) and inputs.ty == "(tuple)":
            back = Adt("(tuple)", None)
            for i, kk in enumerate(sorted(inputs.fields, key=lambda x: x[1])):
                back.fields[(None, kk[1])] = Cell(fresh(i), None, f"r{i}")
        elif n == 0:
            back = UNIT
        else:
            back = fresh(0)
        cont = Adt("Continuation", eng.variant_index("Continuation", ["Answer", "Unmock", "CallDefaultImpl"][k - 1]))
        if k == 1:
            ac = Adt("AnswerClosure", None)
            ac.tag = ("leaf", "the_answer_fn")
            cont.fields[("Answer", 0)] = Cell(ac, None, "answer_closure")
        ev = Adt("Eval", eng.variant_index("Eval", "Continue"))
        ev.fields[("Continue", 0)] = Cell(cont, None, "cont")
        ev.fields[("Continue", 1)] = Cell(back, None, "inputs_back")
        return ev
    add(r"private::eval$", h_eval)

    def h_deref(call):
        return call.argv[0]
    add(r"^<(unimock::private::)?AnswerClosure as Deref>::deref$", h_deref)

    def cb(call, fobj, args):
        call.m.event("answer_call", ident(fobj), tuple(ident(a) for a in args))
        r = Adt("AnswerResult", None)
        r.tag = ("leaf", "answer_result")
        return r
    eng.callback_hook = cb

    def h_report(call):
        call.m.event("report", ident(call.argv[1]) if len(call.argv) > 1 else "?")
        return Panic("Continuation::report")
    add(r"Continuation::report$", h_report)

    def h_real(call):
        call.m.event("real_fn", call.norm.split("::")[-1], tuple(ident(a) for a in call.argv))
        r = Adt("RealResult", None)
        r.tag = ("leaf", "real_result")
        return r
    add(r"^real_\w+$", h_real)

    def h_deleg_method(call):
        call.m.event("default_body", call.norm.split("::")[-1], tuple(ident(a) for a in call.argv))
        r = Adt("DefaultResult", None)
        r.tag = ("leaf", "default_result")
        return r
    add(r"^<(unimock::private::)?DefaultImplDelegator as \w+>::\w+$", h_deleg_method)

    def h_to_deleg(call):
        d = Adt("Delegator", None)
        d.tag = ("leaf", "delegator_of:" + ident(call.argv[0]))
        call.m.event("to_delegator", ident(call.argv[0]))
        return d
    add(r"private::as_ref$|private::as_mut$|DelegateToDefaultImpl>::to_delegator$", h_to_deleg)

    def h_clone(call):
        c = Adt("Unimock", None)
        c.tag = ("leaf", "CLONE_OF:" + ident(call.argv[0]))
        return c
    add(r"clone_unimock$|^<Unimock as Clone>::clone$|^<(Rc|Arc)<Unimock> as Clone>::clone$", h_clone)

    def h_pin_inner(call):
        v = call.argv[0]
        if isinstance(v, Adt) and v.fields:
            return next(iter(v.fields.values())).val
        return v
    add(r"Pin::<.*>::into_inner$|^Pin::into_inner$|Pin::get_mut$", h_pin_inner)
    add(r"^Pin::new$", lambda call: call.argv[0])

    def h_polonius(call):
        borrow, clo = call.argv[0], call.argv[1]
        r = eng.call_closure(call, clo, [borrow], post=("polonius", borrow))
        if r is None:
            raise UnknownCallee("polonius closure")
        return r
    add(r"polonius::polonius$|^polonius$", h_polonius)

    def h_pol_owned(call):
        a = Adt("PoloniusResult", eng.variant_index("PoloniusResult", "Owned"))
        a.fields[("Owned", 0)] = Cell(call.argv[0], None, "value")
        return a
    add(r"PoloniusResult::Owned$", h_pol_owned)

    def h_return_no_break(call):
        d = call.argv[0]
        if isinstance(d, Adt) and d.fields:
            return next(iter(d.fields.values())).val
        return UNIT
    add(r"return_no_break$", h_return_no_break)
    add(r"^<.* as Into>::into$|^<.* as From>::from$", lambda call: call.argv[0])

    # the 'polonius' continuation: Owned{value} gets the input borrow attached as field 1
    orig_do_return = eng.do_return

    def do_return(m, fr):
        if fr.note and fr.note[0] == "polonius":
            rc = fr.locals.get("_0")
            val = eng.force(rc)
            if isinstance(val, Adt) and val.discr == eng.variant_index("PoloniusResult", "Owned"):
                val.fields[("Owned", 1)] = Cell(fr.note[1], None, "input_borrow")
            fr.note = None
        return orig_do_return(m, fr)
    eng.do_return = do_return

    outcome = eng.named("eval.outcome", 64)
    checked = 0
    try:
        for trait, spec in fam.items():
            idx = -1
            for meth in spec["methods"]:
                idx += 1
                if not meth["has_receiver"]:
                    continue
                name = meth["name"]
                cands = [f for f in eng.fns if f.short == name and f.params and "Unimock" in f.params[0][1] and "DefaultImplDelegator" not in f.params[0][1]
                         and not f.raw_name.startswith(trait + "::") and f.impl_span and _span_is_trait(crate, f.impl_span, trait)]
                u.must_be_true(f"C05.generated-impl-found[{trait}::{name}]", len(cands) == 1, {"candidates": [c.raw_name for c in cands]})
                if len(cands) != 1:
                    continue
                f = cands[0]
                np = len(meth["params"])
                recv = lazy_adt("Unimock", "the_receiver")
                rty = f.params[0][1]
                if rty.startswith("&"):
                    recv_arg = Ref(Cell(recv, "Unimock", "the_receiver"))
                elif rty.startswith(("Rc<", "Arc<")):
                    recv_arg = Ref(Cell(recv, "Unimock", "the_receiver"), "arc")
                elif rty.startswith("Pin<"):
                    p_ = Adt("Pin", None)
                    p_.fields[(None, 0)] = Cell(Ref(Cell(recv, "Unimock", "the_receiver")), None, "pin.0")
                    recv_arg = p_
                else:
                    recv_arg = recv
                args = [recv_arg]
                for i, pn in enumerate(meth["params"]):
                    a = Adt("Arg", None)
                    a.tag = ("leaf", f"arg:{pn}")
                    args.append(a)
                paths = u.explore(f, args, note=f"[{trait}::{name}]")
                imposs = meth.get("impossible") or [False] * len(meth["params"])
                want_args = tuple(("FnItem" if imposs[i] else f"arg:{pn}") for i, pn in enumerate(meth["params"]))
                back = tuple((f"arg:{pn}" if imposs[i] else f"r{i}") for i, pn in enumerate(meth["params"]))
                um = spec["unmock"][idx] if idx < len(spec["unmock"]) else None
                seen = set()
                for p in paths:
                    if p.outcome[0] in ("unknown", "bound"):
                        continue
                    ctx = {"method": f"{trait}::{name}"}
                    ev = events(p, "eval")
                    u.must_be_true("C05.exactly-one-evaluation-per-call", len(ev) == 1, dict(ctx, evals=len(ev)))
                    if len(ev) != 1:
                        continue
                    _, mockfn, rid, ins, k = ev[0]
                    state.setdefault("mockfn_by_method", {})[f"{trait}::{name}"] = mockfn
                    seen.add(k)
                    u.must_be_true("C05.evaluates-its-own-mock-entry-point", (spec.get("flat_api") is not None or re.search(r"(^|::|Generic|Hidden__)" + re.escape(name) + r"(<.*>)?$", mockfn) is not None), dict(ctx, mockfn=mockfn))
                    flat = spec.get("flat_api")
                    if flat:
                        want_fn = flat[idx] if idx < len(flat) else None
                        u.must_be_true("C05.flattened-api-method-evaluates-the-entry-of-its-own-position", want_fn is not None and re.search(r"(^|::)" + re.escape(want_fn) + r"$", mockfn) is not None, dict(ctx, mockfn=mockfn, want=want_fn))
                    u.must_be_true("C05.receiver-forwarded", rid == "the_receiver", dict(ctx, got=rid))
                    u.must_be_true("C05.arguments-forwarded-in-declaration-order", tuple(ins) == want_args, dict(ctx, got=ins, want=want_args))
                    ac = events(p, "answer_call")
                    rf = events(p, "real_fn")
                    db = events(p, "default_body")
                    rep = events(p, "report")
                    res = ident(p.outcome[1]) if p.outcome[0] == "return" else None
                    if k == 0:
                        u.must_be_true("C05.returned-value-unchanged", p.outcome[0] == "return" and res == "the_output" and not (ac or rf or db), dict(ctx, res=res))
                    elif k == 1:
                        okc = len(ac) == 1 and ac[0][1] == "the_answer_fn" and ac[0][2] == ("the_receiver",) + back
                        u.must_be_true("C05.answer-called-once-with-receiver-and-rebound-inputs-in-order", okc and not (rf or db), dict(ctx, got=ac))
                        u.must_be_true("C05.answer-result-returned-unchanged", p.outcome[0] == "return" and res == "answer_result", dict(ctx, res=res))
                    elif k == 2:
                        if um is None:
                            u.must_be_true("C16.no-function-registered-means-report", p.outcome[0] == "panic" and len(rep) == 1 and not (rf or db or ac), dict(ctx, outcome=p.outcome[0], real=rf))
                        else:
                            fn_name, plist = um
                            want = ("the_receiver",) + back if plist is None else tuple(back[meth["params"].index(x)] if x in meth["params"] else ("the_receiver" if x == "self" else x) for x in plist)
                            okr = len(rf) == 1 and rf[0][1] == fn_name.split("::")[-1] and rf[0][2] == want
                            u.must_be_true("C16.registered-function-called-once-with-mock-and-arguments", okr and not (ac or db), dict(ctx, got=rf, want=(fn_name, want), outcome=p.outcome))
                            u.must_be_true("C16.real-result-returned-unchanged", p.outcome[0] == "return" and res == "real_result", dict(ctx, res=res))
                    else:
                        if meth["has_body"]:
                            okd = len(db) == 1 and db[0][1] == name and db[0][2][1:] == back and str(db[0][2][0]).startswith("delegator_of:the_receiver")
                            u.must_be_true("C15.default-body-runs-on-the-helper-of-this-mock-with-the-arguments", okd and not (ac or rf), dict(ctx, got=db, outcome=p.outcome))
                            u.must_be_true("C15.default-body-result-returned-unchanged", p.outcome[0] == "return" and res == "default_result", dict(ctx, res=res))
                        else:
                            u.must_be_true("C15.no-default-body-means-report", p.outcome[0] == "panic" and len(rep) == 1 and not (db or ac or rf), dict(ctx, outcome=p.outcome[0]))
                u.must_be_true("C05.all-four-outcomes-handled", seen == {0, 1, 2, 3}, {"method": f"{trait}::{name}", "seen": sorted(seen)})
                # MockFnInfo: the default-impl flag exactly for methods with a body (feeds the fall-through table of C07)
                infos = [g for g in eng.fns if g.short == "info" and g.impl_span and _info_is_for(crate, g.impl_span, name)]
                if infos:
                    flag = any("default_impl" in c for c, _ in all_callees(eng, infos[0]))
                    u.must_be_true("C07.default-impl-flag-exactly-for-provided-methods", flag == meth["has_body"], {"method": f"{trait}::{name}", "flag": flag})
                checked += 1
        # generic mock entry points: `with_types::<trait-level args.., method-level args..>()` names the instantiation the
        # generated method evaluates (argument ORDER: a swap silently registers the clause for another instantiation)
        fsrc = open(os.path.join(crate, "src", "lib.rs")).read()
        for mh in re.finditer(r"pub fn (\w+_with_types)\(\) -> impl Sized \{\s*(\w+)Mock::(\w+)\s*\.with_types::<([^>]*)>\(\)", fsrc):
            helper, trait, meth, targs = mh.group(1), mh.group(2), mh.group(3), [x.strip() for x in mh.group(4).split(",")]
            hf = [g for g in eng.fns if g.short == helper]
            u.must_be_true("C05.with_types-helper-found", len(hf) == 1, {"helper": helper})
            if len(hf) != 1:
                continue
            from .mirsym.parse import split_top as _st
            ret = hf[0].ret or ""
            got = [x.strip() for x in _st(ret[ret.find("<") + 1:ret.rfind(">")])] if "<" in ret else []
            u.must_be_true("C05.with_types-instantiates-in-the-order-trait-generics-then-method-generics", got == targs, {"helper": helper, "returns": ret, "asked": targs})
            # ... and the generated method evaluates <trait generics.., method generics..> in that same order
            td = re.search(r"pub trait " + trait + r"<([^>{]*)>", fsrc)
            md = re.search(r"fn " + meth + r"<([^>(]*)>\(", fsrc[fsrc.find("pub trait " + trait):])
            decl = [x.split(":")[0].strip() for x in (td.group(1).split(",") if td else [])] + [x.split(":")[0].strip() for x in (md.group(1).split(",") if md else [])]
            ev = state.get("mockfn_by_method", {}).get(f"{trait}::{meth}")
            if ev:
                eargs = [x.strip() for x in _st(ev[ev.find("<") + 1:ev.rfind(">")])] if "<" in ev else []
                u.must_be_true("C05.generated-method-evaluates-the-instantiation-of-its-own-generics-in-declaration-order", eargs == decl, {"method": f"{trait}::{meth}", "evaluates": ev, "declared": decl})
        # associated constants given in the attribute: BOTH generated impls (for Unimock and for the delegation helper) define
        # them with the attribute's value - a default body reading Self::K must see the same value as a direct call
        for mh in re.finditer(r"#\[unimock\(([^\]]*?const [^\]]*)\)\]\s*pub trait (\w+)", fsrc):
            attrs, trait = mh.group(1), mh.group(2)
            for cm in re.finditer(r"const (\w+): (\w+) = (\w+);", attrs):
                cname, cty, cval = cm.groups()
                vals = re.findall(r"(?m)^const (?:\w+::)*<impl at [^>]*>::" + cname + r": " + cty + r" = const (\w+?)(?:_" + cty + r")?;", mir)
                u.must_be_true("C15.attribute-consts-defined-by-both-generated-impls-with-the-attribute-value", vals == [cval, cval], {"trait": trait, "const": cname, "values_in_impls": vals, "attribute": cval})
        u.witness(f"{checked} generated methods explored", [z3.BoolVal(checked >= 20)])
    finally:
        eng.callback_hook = None
        eng.do_return = orig_do_return
        for it_ in hs:
            eng.handlers.remove(it_)
    r = u.result()
    r["mir_dump_s"] = round(dt, 1)
    return r


_src_cache = {}


def _lines(crate, file):
    p = os.path.join(crate, file)
    if p not in _src_cache:
        _src_cache[p] = open(p).read().split("\n")
    return _src_cache[p]


def _span_is_trait(crate, span, trait):
    """generated impls carry the span of the #[unimock(..)] attribute: the trait declared right after it must be `trait`."""
    ls = _lines(crate, span[0])
    for l in ls[span[1] - 1: span[1] + 3]:
        m = re.search(r"\btrait\s+(\w+)", l)
        if m:
            return m.group(1) == trait
    return False


def _info_is_for(crate, span, method):
    ls = _lines(crate, span[0])
    l = ls[span[1] - 1] if 0 < span[1] <= len(ls) else ""
    return re.search(r"\bfn\s+" + re.escape(method) + r"\b", l) is not None
