"""Scratch copies of /repo's working tree with the verification overlay applied."""
import os, shutil, subprocess, tempfile, hashlib

REPO = os.environ.get("UNIMOCK_REPO", "/repo")
VERIF = os.path.dirname(os.path.dirname(os.path.dirname(os.path.abspath(__file__))))
OVERLAY = os.path.join(VERIF, "overlay")

# prepend lines (module-level name shadows the extern prelude), per file
SHIM = '#[cfg(all(kani, feature = "std"))] use crate::verif::std_shim as std;\n'
ONCE = '#[cfg(kani)] use uv_once_shim as once_cell;\n'
PREPEND = {
    "src/state.rs": SHIM,
    "src/teardown.rs": SHIM,
    "src/value_chain.rs": ONCE,
    "src/lib.rs": ONCE,
}

def scratch_root():
    base = os.environ.get("VERIF_SCRATCH", "/var/tmp")
    os.makedirs(base, exist_ok=True)
    return tempfile.mkdtemp(prefix="uvf-", dir=base)

def copy_repo(dst):
    """rsync the working tree (not target/, not .git) to dst/repo."""
    os.makedirs(dst, exist_ok=True)
    subprocess.run(["rsync", "-a", "--delete", "--exclude", "/target", "--exclude", "/.git",
                    REPO + "/", os.path.join(dst, "repo") + "/"], check=True)
    return os.path.join(dst, "repo")

def tree_hash(root):
    h = hashlib.sha256()
    for d, _, fs in sorted(os.walk(root)):
        if "/target" in d or "/.git" in d:
            continue
        for f in sorted(fs):
            if f.endswith((".rs", ".toml", ".lock")):
                p = os.path.join(d, f)
                h.update(p[len(root):].encode())
                h.update(open(p, "rb").read())
    return h.hexdigest()[:16]

def apply_overlay(repo, infile=True, prepend=False, skip=()):
    """Append-only / prepend-only instrumentation, all under cfg(kani)/cfg(unimock_verif)."""
    src = os.path.join(repo, "src")
    shutil.copy(os.path.join(OVERLAY, "src", "verif.rs"), os.path.join(src, "verif.rs"))
    with open(os.path.join(src, "lib.rs"), "a") as f:
        f.write("\n#[cfg(any(kani, unimock_verif))]\n#[doc(hidden)]\npub mod verif;\n")
    applied = ["src/verif.rs", "src/lib.rs (+pub mod verif)"]
    if infile:
        d = os.path.join(OVERLAY, "infile")
        for dirpath, _, files in os.walk(d):
            for fn in files:
                rel = os.path.relpath(os.path.join(dirpath, fn), d)
                if rel in skip:
                    continue
                target = os.path.join(src, rel)
                if not os.path.exists(target):
                    raise RuntimeError(f"overlay target missing: src/{rel}")
                with open(target, "a") as f:
                    f.write(open(os.path.join(dirpath, fn)).read())
                applied.append(f"src/{rel} (+harness module)")
    if prepend:
        # the once_cell stand-in crate (cfg(kani) only): a path dependency of the scratch copy
        shim = os.path.join(os.path.dirname(repo), "uv_once_shim")
        if not os.path.exists(shim):
            shutil.copytree(os.path.join(OVERLAY, "shim_crate"), shim)
        with open(os.path.join(repo, "Cargo.toml"), "a") as f:
            f.write('\n[target.\'cfg(kani)\'.dependencies.uv_once_shim]\npath = "../uv_once_shim"\n')
        applied.append("Cargo.toml (+cfg(kani) dependency uv_once_shim)")
        for rel, line in PREPEND.items():
            # a `use` item may stand anywhere in a module: appended, so the overlay stays append-only
            p = os.path.join(repo, rel)
            with open(p, "a") as f:
                f.write("\n" + line)
            applied.append(f"{rel} (+shim import)")
    return applied

def cleanup(path):
    shutil.rmtree(path, ignore_errors=True)
