"""E1 units: query sets over the MIR engine, per property. Each unit = one function (or a small family) explored
symbolically from an arbitrary pre-state, plus z3 queries `path-condition AND NOT post` (unsat = holds) and
vacuity witnesses (sat required)."""
import os, re, time, json, subprocess, copy
import z3

from . import scratch
from .mirsym.engine import Engine, Lazy, Unsupported
from .mirsym.values import *

VERIF = scratch.VERIF


# ------------------------------------------------------------------------------------------- MIR dump
def dump_mir(root, cfg="std"):
    work = os.path.join(root, f"mir-{cfg}")
    repo = scratch.copy_repo(work)
    feats = {"std": ["--no-default-features", "--features", "std"],
             "nostd": ["--no-default-features", "--features", "critical-section,spin-lock"],
             "mocks": ["--no-default-features", "--features", "std,mock-core,mock-std,mock-embedded-hal-1,mock-tokio-1,mock-futures-io-0-3"]}[cfg]
    cmd = ["cargo", "+nightly", "rustc", "--offline", "--lib", "--target-dir", os.path.join(work, "target")] + feats + \
          ["--", "-Zunpretty=mir", "-C", "debug-assertions=off", "-C", "overflow-checks=on"]
    t = time.time()
    p = subprocess.run(cmd, cwd=repo, stdout=subprocess.PIPE, stderr=subprocess.PIPE, text=True,
                       env=dict(os.environ, CARGO_NET_OFFLINE="true"))
    if p.returncode != 0 or "fn " not in p.stdout:
        raise RuntimeError("MIR dump failed:\n" + p.stderr[-3000:])
    return p.stdout, repo, time.time() - t


# ------------------------------------------------------------------------------------------- query helper
CROSS_CHECK = False
CROSS_MAX = 200
CROSS_STRIDE = 25


class Unit:
    def __init__(self, eng, name, functions, bounds, desc=""):
        self.eng = eng
        self.name = name
        self.functions = functions
        self.bounds = bounds
        self.desc = desc
        self.obligations = 0
        self.discharged = 0
        self.failures = []      # (query name, model dict)
        self.errors = []
        self.vacuous = []
        self.witnesses = 0
        self.paths = 0
        self.t0 = time.time()
        self.s0 = eng.solver_time
        self.samples = []
        self.ob_names = {}

    def _count(self, qname):
        k = qname.split("[")[0]
        self.ob_names[k] = self.ob_names.get(k, 0) + 1

    def explore(self, fn, args, m=None, note=""):
        mach = self.eng.start(fn, args, m)
        paths = self.eng.explore(mach)
        self.paths += len(paths)
        for p in paths:
            if p.outcome[0] in ("unknown", "bound"):
                self.errors.append(f"{fn.short}{note}: {p.outcome[0]}: {p.outcome[1]}")
        return paths

    def must_be_unsat(self, qname, conds, ctx=None, logic=None):
        """Obligation: conds is unsatisfiable. A model is a counterexample."""
        self.obligations += 1
        self._count(qname)
        r, mod = self.eng.model(conds, logic=logic)
        if CROSS_CHECK and r in (z3.unsat, z3.sat):
            # thorough tier: every k-th obligation (at most CROSS_MAX per unit) is decided again by cvc5
            self._cross_n = getattr(self, "_cross_n", 0) + 1
            cr = getattr(self, "_cross", None)
            if cr is None:
                cr = self._cross = []
            if len(cr) < CROSS_MAX and (self._cross_n % CROSS_STRIDE == 1 or self.obligations <= 40):
                sv = z3.Solver()
                for c in conds:
                    sv.add(c)
                cr.append((qname, sv.to_smt2(), "unsat" if r == z3.unsat else "sat"))
        if r == z3.unsat:
            self.discharged += 1
            return True
        if r == z3.sat:
            md = {str(d): str(mod[d]) for d in mod.decls()}
            self.failures.append((qname, md, ctx))
        else:
            self.errors.append(f"{qname}: solver returned unknown")
        return False

    def defer_unsat(self, qname, conds, ctx=None, logic="QF_BV"):
        """Queue an obligation to be discharged by an external solver process (run in parallel by flush())."""
        sv = z3.Solver()
        for c in conds:
            sv.add(c)
        self._deferred = getattr(self, "_deferred", [])
        self._deferred.append((qname, f"(set-logic {logic})\n" + sv.to_smt2(), ctx))

    def flush(self, timeout_s=300, solver_cmd=("z3", "-smt2", "-in"), cross=None):
        """Discharge queued obligations with `z3 -in` processes in parallel; optionally cross-check with a second solver."""
        import concurrent.futures as cf_
        qs = getattr(self, "_deferred", [])
        self._deferred = []

        def run_one(item, cmd):
            qname, smt, ctx = item
            t = time.time()
            try:
                p = subprocess.run(list(cmd), input=smt + "\n(get-model)\n" if False else smt, stdout=subprocess.PIPE, stderr=subprocess.PIPE, text=True, timeout=timeout_s)
                out = p.stdout.strip().split("\n")[0] if p.stdout.strip() else "error"
                if "(error" in p.stdout:
                    out = "error"
            except subprocess.TimeoutExpired:
                out = "timeout"
            return qname, out, time.time() - t, ctx
        with cf_.ThreadPoolExecutor(max_workers=int(os.environ.get("VERIF_JOBS", "12"))) as ex:
            res = list(ex.map(lambda it: run_one(it, solver_cmd), qs))
            res2 = list(ex.map(lambda it: run_one(it, cross), qs)) if cross else None
        for k, (qname, out, dt, ctx) in enumerate(res):
            self.obligations += 1
            self._count(qname)
            self.ext_solver_s = getattr(self, "ext_solver_s", 0.0) + dt
            if res2 and res2[k][1] in ("sat", "unsat") and out in ("sat", "unsat") and res2[k][1] != out:
                self.errors.append(f"{qname}: solvers disagree ({out} vs {res2[k][1]})")
                continue
            if out == "unsat":
                self.discharged += 1
            elif out == "sat":
                self.failures.append((qname, {}, ctx))
            else:
                self.errors.append(f"{qname}: external solver: {out}")

    def must_hold(self, qname, pc, post, ctx=None):
        return self.must_be_unsat(qname, list(pc) + [z3.Not(post)], ctx)

    def must_be_true(self, qname, pyb, ctx=None):
        """A structural obligation decided by the executor itself (event order, data-flow identity)."""
        self.obligations += 1
        self._count(qname)
        if pyb:
            self.discharged += 1
        else:
            self.failures.append((qname, {}, ctx))
        return pyb

    def witness(self, wname, conds, logic=None):
        """Vacuity witness: conds must be satisfiable."""
        r = self.eng.model(conds, logic=logic)[0] if logic else self.eng.check(conds)
        if r == z3.sat:
            self.witnesses += 1
            return True
        self.vacuous.append(wname)
        return False

    def cross_check(self):
        cr = getattr(self, "_cross", None)
        if not cr:
            return
        t = time.time()
        parts = ["(set-logic ALL)"]
        for qname, smt, _ in cr:
            body = "\n".join(l for l in smt.splitlines() if not l.startswith("(set-info") and not l.startswith("(set-logic") and l.strip() != "(check-sat)")
            parts.append("(push 1)\n" + body + "\n(check-sat)\n(pop 1)")
        try:
            pr = subprocess.run(["cvc5", "--lang", "smt2", "--incremental", "--tlimit-per", "20000"], input="\n".join(parts), stdout=subprocess.PIPE, stderr=subprocess.PIPE, text=True, timeout=900)
            outs = [l.strip() for l in pr.stdout.splitlines() if l.strip() in ("sat", "unsat", "unknown") or l.startswith("(error")]
        except Exception as e:
            self.errors.append(f"cvc5 cross-check did not run: {e!r}")
            return
        agree = 0
        if len(outs) != len(cr):
            self.errors.append(f"cvc5 cross-check: {len(outs)} answers for {len(cr)} queries ({pr.stderr[-200:]})")
            return
        for (qname, _, z3res), o in zip(cr, outs):
            if o == z3res:
                agree += 1
            elif o in ("sat", "unsat"):
                self.errors.append(f"{qname}: solvers disagree (z3 {z3res} vs cvc5 {o})")
        self.cross = {"solver": "cvc5", "queries": len(cr), "agree": agree, "unknown_or_error": len(cr) - agree - sum(1 for e in self.errors if "solvers disagree" in e), "seconds": round(time.time() - t, 1)}

    def result(self):
        if CROSS_CHECK:
            self.cross_check()
        st = "held"
        if self.failures:
            st = "failed"
        elif self.errors:
            st = "error"
        elif self.vacuous:
            st = "vacuous"
        u = {
            "engine": "mirsym", "name": self.name, "status": st, "functions": self.functions, "bounds": self.bounds,
            "desc": self.desc, "obligations": self.obligations, "discharged": self.discharged,
            "solver_s": round(self.eng.solver_time - self.s0 + getattr(self, "ext_solver_s", 0.0), 3), "paths": self.paths, "witnesses": self.witnesses,
            "nonvacuous": self.witnesses > 0 and not self.vacuous,
            "obligation_kinds": dict(sorted(self.ob_names.items())),
        }
        if getattr(self, "cross", None):
            u["cross_check"] = self.cross
        if self.failures:
            u["model"] = [{"query": q, "model": md, "ctx": ctx} for q, md, ctx in self.failures[:5]]
        if self.errors:
            u["note"] = "; ".join(self.errors[:4])
        elif self.vacuous:
            u["note"] = "vacuous: " + ", ".join(self.vacuous[:4])
        return u


def lazy_adt(ty, name):
    a = Adt(ty)
    a.lazy = Lazy(name)
    return a


def field_index(eng, struct, field):
    fs = eng.structs.get(struct)
    if not fs or field not in fs:
        raise Unsupported(f"struct {struct} has no field {field} (source changed?)")
    return fs.index(field)


def bv(n):
    return Int(z3.BitVecVal(n, 64), 64, False)


def is_variant(eng, val, enum, variant):
    """z3 condition: the value (Adt) is the given variant."""
    d = eng.discr_of(val)
    return d.e == eng.variant_index(enum, variant)


def events(m, *kinds):
    return [e for e in m.trace if e[0] in kinds]


def first_index(m, pred):
    for i, e in enumerate(m.trace):
        if pred(e):
            return i
    return None


# ------------------------------------------------------------------------------------------- shared builders
def build_unimock(eng, M, name="u"):
    """&mut Unimock with an arbitrary pre-state whose method table has exactly M (opaque) entries."""
    st = lazy_adt("SharedState", "state")
    entries = [(Cell(Int(eng.named(f"key{i}", 64), 64, False), None, f"key{i}"),
                Cell(Opaque("fn_mocker::FnMocker", f"mocker{i}"), "fn_mocker::FnMocker", f"mocker{i}")) for i in range(M)]
    st.fields[(None, field_index(eng, "SharedState", "fn_mockers"))] = Cell(MapVal(entries), None, "state.fn_mockers")
    u = lazy_adt("Unimock", name)
    u.fields[(None, field_index(eng, "Unimock", "shared_state"))] = Cell(Ref(Cell(st, None, "state"), "arc"), None, name + ".shared_state")
    return Ref(Cell(u, "Unimock", name)), u, st


class opaque_calls:
    """Context manager: treat callees matching the patterns as opaque (event + fresh result), overriding summaries."""

    def __init__(self, eng, patterns):
        self.eng = eng
        self.items = []
        for p in patterns:
            rx = re.compile(p)

            def h(call, rx=rx):
                call.m.event("opaque", call.norm, tuple(getattr(a, "cell", None) and a.cell.name or type(a).__name__ for a in call.argv))
                return Opaque(call.ret_ty, f"ret:{call.norm.split('::')[-1]}#{next(self.eng.fresh_n)}")
            self.items.append((rx, h))

    def __enter__(self):
        for it in reversed(self.items):
            self.eng.handlers.insert(0, it)
        return self

    def __exit__(self, *a):
        for it in self.items:
            self.eng.handlers.remove(it)


def install_fnmocker_verify_summary(eng):
    """Summary for FnMocker::verify at the teardown level: entry i appends n_i >= 0 errors (n_i symbolic), nothing else.
    (The function itself is decided by its own unit.)"""
    rx = re.compile(r"^FnMocker::verify$")

    def h(call):
        who = call.argv[0].cell.name if isinstance(call.argv[0], Ref) else "?"
        v = eng.vec_of(call, call.argv[1])
        n = eng.named(f"errs[{who}]", 64)
        call.m.pc.append(z3.ULE(n, 1 << 20))
        cur = v.base.e if v.base is not None else z3.BitVecVal(0, 64)
        v.base = Int(cur + n, 64, False)
        call.m.event("verify_mocker", who)
        return UNIT
    eng.handlers.insert(0, (rx, h))
    return (rx, h)


# ------------------------------------------------------------------------------------------- teardown family
def unit_teardown(eng, tier, prop):
    """teardown(): guard order, clone/original, panicking, live clones, thread, recorded errors, verification of all methods.
    Serves C03 / C08 / C09 / C11 (each property reads the facts it needs; all obligations are checked every time)."""
    Mmax = 3 if tier == "thorough" else 2
    u = Unit(eng, "teardown", ["teardown", "SharedState::clone_panic_reasons", "MutexIsh::locked"],
             f"all values of (original_instance, panicking(), strong_count, thread equality, recorded-error count, per-method error counts); method table with M=0..{Mmax} entries; FnMocker::verify summarised as 'appends n_i >= 0 errors'")
    f = eng.find_fn(r"^teardown$")
    i_orig = field_index(eng, "Unimock", "original_instance")
    i_torn = field_index(eng, "Unimock", "torn_down")
    h = install_fnmocker_verify_summary(eng)
    try:
        for M in range(0, Mmax + 1):
            ref, uni, st = build_unimock(eng, M)
            paths = u.explore(f, [ref], note=f"[M={M}]")
            orig = z3.Bool("u.%d" % i_orig)
            pan = eng.named_bool("env.panicking")
            cnt = eng.named("env.strong_count", 64)
            oth = eng.named_bool("env.other_thread")
            for p in paths:
                kind = p.outcome[0]
                if kind in ("unknown", "bound"):
                    continue
                ctx = {"M": M, "outcome": kind if kind != "panic" else p.outcome[1]}
                # torn_down is set on every path
                ucell = p.frames[0].locals["_1"].val.cell if p.frames else None
                # (frames are popped at return; find the Unimock object through the trace-independent root)
                # C11: no panic while the thread is already panicking — for all inputs
                if kind == "panic":
                    u.must_be_unsat(f"C11.no-panic-while-panicking[M={M}]", list(p.pc) + [pan], ctx)
                    u.must_be_unsat(f"C09.clone-never-panics[M={M}]", list(p.pc) + [z3.Not(orig)], ctx)
                    site = p.outcome[1]
                    if "clones still alive" in site:
                        u.must_hold(f"C09.clone-panic-iff-count>1[M={M}]", p.pc, z3.And(orig, z3.Not(pan), z3.UGT(cnt, 1)), ctx)
                    elif "different thread" in site:
                        u.must_hold(f"C09.thread-panic-cond[M={M}]", p.pc, z3.And(orig, z3.Not(pan), z3.ULE(cnt, 1), oth), ctx)
                    else:
                        u.must_be_true(f"teardown.unexpected-panic-site[M={M}]", False, ctx)
                # release of helper + value chain precedes every count read / panic / verification
                rel1 = first_index(p, lambda e: e[0] == "oncecell_take")
                rel2 = first_index(p, lambda e: e[0] == "mem_take")
                first_use = first_index(p, lambda e: (e[0] == "env") or e[0] in ("panic", "verify_mocker", "lock"))
                ok = rel1 is not None and rel2 is not None and (first_use is None or (rel1 < first_use and rel2 < first_use))
                u.must_be_true(f"C11.helpers-released-first[M={M}]", ok, ctx)
                # the released things are actually DROPPED before the clone count is read (a value lent via make_ref may
                # itself hold a clone of the mock): both drops precede the first environment read / lock / verification
                drops_i = [i for i, e in enumerate(p.trace) if (e[0] == "drop_call") or (e[0] == "drop" and ("ValueChain" in str(e[3]) or "DefaultImplDelegator" in str(e[3])))]
                u.must_be_true(f"C09.released-values-dropped-before-the-count[M={M}]", len(drops_i) >= 2 and (first_use is None or drops_i[1] < first_use), dict(ctx, drops=drops_i, first_use=first_use))
                nver = len(events(p, "verify_mocker"))
                if kind == "return":
                    val = p.outcome[1]
                    is_ok = is_variant(eng, val, "Result", "Ok")
                    # clones / panicking: Ok without verification work
                    u.must_hold(f"C09.clone-or-panicking-skips[M={M}]", p.pc, z3.Implies(z3.Or(z3.Not(orig), pan), is_ok), ctx)
                    if nver > 0:
                        u.must_hold(f"C09.verify-only-original[M={M}]", p.pc, z3.And(orig, z3.Not(pan), z3.ULE(cnt, 1), z3.Not(oth)), ctx)
                        u.must_be_true(f"C03.every-method-verified-once[M={M}]",
                                       [e[1] for e in events(p, "verify_mocker")] == [f"mocker{i}" for i in range(M)], ctx)
                    # verdict
                    errs = [eng.named(f"errs[mocker{i}]", 64) for i in range(M)]
                    total = z3.BitVecVal(0, 64)
                    for e_ in errs:
                        total = total + e_
                    reasons_len = eng.named("state.%d.0.mutex.0.len" % field_index(eng, "SharedState", "panic_reasons"), 64)
                    took_lock = any(e[0] == "lock" for e in p.trace)
                    if took_lock:
                        ev = val.fields.get(("Err", 0))
                        fwd = ev is not None and isinstance(ev.val, VecVal) and ev.val.tag and ev.val.tag[0] == "clone_of"
                        if fwd:
                            # C08: recorded errors are forwarded instead of judging the counts
                            u.must_hold(f"C08.recorded-errors-forwarded[M={M}]", p.pc, z3.And(reasons_len != 0, z3.Not(is_ok)), ctx)
                            u.must_be_true(f"C08.no-count-judged-when-forwarding[M={M}]", nver == 0, ctx)
                        else:
                            u.must_hold(f"C08.counts-judged-only-without-recorded-errors[M={M}]", p.pc, reasons_len == 0, ctx)
                            u.must_hold(f"C03.err-iff-some-error[M={M}]", p.pc, is_ok == (total == 0), ctx)
                            u.must_be_true(f"C03.verified-all[M={M}]", nver == M, ctx)
                    else:
                        u.must_hold(f"teardown.ok-without-lock-only-when-skipping[M={M}]", p.pc, z3.And(is_ok, z3.Or(z3.Not(orig), pan)), ctx)
            # completeness of the case split (no input is lost): the disjunction of all path conditions is valid
            u.must_be_unsat(f"teardown.paths-cover-all-inputs[M={M}]", [z3.UGE(cnt, 1)] + [z3.ULE(e_, 1 << 20) for e_ in [eng.named(f"errs[mocker{i}]", 64) for i in range(M)]] + [z3.Not(z3.Or([z3.And(p.pc) if p.pc else z3.BoolVal(True) for p in paths]))])
            # must-panic facts (C09): for these inputs *every* path ends in the panic
            for p in paths:
                if p.outcome[0] == "return":
                    u.must_be_unsat(f"C09.live-clone-must-panic[M={M}]", list(p.pc) + [orig, z3.Not(pan), z3.UGT(cnt, 1)])
                    u.must_be_unsat(f"C09.foreign-thread-must-panic[M={M}]", list(p.pc) + [orig, z3.Not(pan), z3.ULE(cnt, 1), oth])
            # vacuity witnesses
            pp = [p for p in paths if p.outcome[0] == "panic"]
            u.witness(f"two panic sites reachable[M={M}]", [z3.BoolVal(len(pp) >= 2)])
            u.witness(f"panicking path returns[M={M}]", [z3.Or([z3.And(list(p.pc) + [pan]) for p in paths if p.outcome[0] == "return"])])
            u.witness(f"forwarding path exists[M={M}]", [z3.BoolVal(any(p.outcome[0] == "return" and ("Err", 0) in p.outcome[1].fields and getattr(p.outcome[1].fields[("Err", 0)].val, "tag", None) for p in paths))])
            if M > 0:
                u.witness(f"verification path exists[M={M}]", [z3.BoolVal(any(len(events(p, 'verify_mocker')) == M for p in paths))])
    finally:
        eng.handlers.remove(h)
    return u.result()


def unit_torn_down_flag(eng, tier, prop):
    """teardown sets torn_down before anything else; Drop returns at once when it is set; verify_in_drop=false skips."""
    u = Unit(eng, "drop+flags", ["<Unimock as Drop>::drop", "teardown", "teardown_panic", "Unimock::verify", "Unimock::no_verify_in_drop", "<Unimock as Clone>::clone"],
             "all values of (torn_down, verify_in_drop, original_instance); teardown summarised by its own unit")
    i_orig = field_index(eng, "Unimock", "original_instance")
    i_torn = field_index(eng, "Unimock", "torn_down")
    i_vid = field_index(eng, "Unimock", "verify_in_drop")
    i_ss = field_index(eng, "Unimock", "shared_state")
    # --- teardown: first statement sets torn_down (look at the first event-free prefix of the MIR)
    f = eng.find_fn(r"^teardown$")
    first = f.blocks[0].stmts
    setpos = next((i for i, s in enumerate(first) if re.match(r"\(\(\*_1\)\.%d: bool\) = const true;" % i_torn, s)), None)
    u.must_be_true("C09.teardown-sets-torn_down-first", setpos is not None and all(not re.search(r"\(\*_1\)", s) for s in first[:setpos]), {"bb0": first[:4]})
    # --- summaries
    rx = re.compile(r"^teardown_panic$|^teardown::teardown_panic$")

    def h(call):
        call.m.event("teardown_panic")
        return UNIT
    eng.handlers.insert(0, (rx, h))
    try:
        # Drop::drop
        d = eng.find_fn(r"^<impl at src/lib\.rs:\d+:1: \d+:22>::drop$")
        ref, uni, st = build_unimock(eng, 0)
        paths = u.explore(d, [ref])
        torn = z3.Bool("u.%d" % i_torn)
        vid = z3.Bool("u.%d" % i_vid)
        for p in paths:
            if p.outcome[0] != "return":
                if p.outcome[0] == "panic":
                    u.must_be_true("C09.drop-itself-never-panics", False, {"site": p.outcome[1]})
                continue
            called = len(events(p, "teardown_panic"))
            u.must_be_true("C09.drop-calls-teardown-at-most-once", called <= 1)
            if called:
                u.must_hold("C09.drop-verifies-only-if-not-torn-down-and-enabled", p.pc, z3.And(z3.Not(torn), vid))
            else:
                u.must_hold("C09.drop-skips-only-if-torn-down-or-disabled", p.pc, z3.Or(torn, z3.Not(vid)))
        u.witness("drop: verifying path", [z3.BoolVal(any(events(p, "teardown_panic") for p in paths))])
        u.witness("drop: skipping path", [z3.BoolVal(any(not events(p, "teardown_panic") and p.outcome[0] == "return" for p in paths))])
        # verify(self)
        v = eng.find_fn(r"^<impl at src/lib\.rs:\d+:1: \d+:13>::verify$")
        uni = lazy_adt("Unimock", "u")
        paths = u.explore(v, [uni])
        orig = z3.Bool("u.%d" % i_orig)
        for p in paths:
            if p.outcome[0] == "panic":
                u.must_hold("C09.verify()-panics-only-on-clone", p.pc, z3.Not(orig), {"site": p.outcome[1]})
                u.must_be_true("C09.verify()-clone-panic-before-teardown", not events(p, "teardown_panic"))
            elif p.outcome[0] == "return":
                u.must_hold("C09.verify()-on-clone-must-panic", p.pc, orig)
                u.must_be_true("C09.verify()-runs-teardown_panic-once", len(events(p, "teardown_panic")) == 1)
                # C13/C12: the consumed instance is released afterwards (its shared state holds the configured values, which
                # are dropped exactly once): it is dropped, not forgotten
                dropped = [e for e in p.trace if e[0] == "drop" and e[2] == "_1"]
                u.must_be_true("C13.verify()-releases-the-instance-afterwards", bool(dropped) and not events(p, "forget"), {"drops": [e[1:] for e in p.trace if e[0] == "drop"][:4], "forget": events(p, "forget")})
        u.witness("verify(): both outcomes", [z3.BoolVal({p.outcome[0] for p in paths} >= {"panic", "return"})])
        # no_verify_in_drop(self)
        nv = eng.find_fn(r"::no_verify_in_drop$")
        uni = lazy_adt("Unimock", "u")
        paths = u.explore(nv, [uni])
        for p in paths:
            if p.outcome[0] == "panic":
                u.must_hold("C09.no_verify_in_drop()-panics-only-on-clone", p.pc, z3.Not(orig))
            elif p.outcome[0] == "return":
                u.must_hold("C09.no_verify_in_drop()-on-clone-must-panic", p.pc, orig)
                r = p.outcome[1]
                c = r.fields.get((None, i_vid))
                u.must_be_true("C09.no_verify_in_drop()-clears-flag", c is not None and isinstance(c.val, Bool) and z3.is_false(z3.simplify(c.val.e)))
                # ... and touches nothing else (in particular not the delegation helper, which owns lent values: C13)
                written = sorted(k[1] for k, cc in r.fields.items() if k[1] != i_vid and not isinstance(cc.val, Opaque) and not (isinstance(cc.val, Adt) and cc.val.lazy is not None)
                                 and not (isinstance(cc.val, (Bool, Int)) and str(cc.val.e) == f"u.{k[1]}"))
                drops = [e for e in p.trace if e[0] == "drop"]
                u.must_be_true("C13.no_verify_in_drop()-changes-only-the-flag", written == [] and not drops and not events(p, "oncecell_take"), {"fields_written": written, "drops": [e[1:] for e in drops][:3]})
        u.witness("no_verify_in_drop(): both outcomes", [z3.BoolVal({p.outcome[0] for p in paths} >= {"panic", "return"})])
        # Termination::report(self): always the verdict of teardown_report, whatever the flags (C09: FAILURE exactly when
        # verify() would have failed)
        rxr = re.compile(r"^teardown_report$|^teardown::teardown_report$")

        def hr(call):
            call.m.event("teardown_report")
            a = Adt("ExitCode", None)
            a.tag = ("the_exit_code",)
            return a
        eng.handlers.insert(0, (rxr, hr))
        try:
            rp_ = [g for g in eng.fns if g.short == "report" and g.params and g.params[0][1].replace(" ", "") == "Unimock"]
            u.must_be_true("C09.report-impl-found", len(rp_) == 1, {"n": len(rp_)})
            if len(rp_) == 1:
                paths = u.explore(rp_[0], [lazy_adt("Unimock", "u")])
                for p in paths:
                    if p.outcome[0] == "return":
                        r = p.outcome[1]
                        u.must_be_true("C09.report()-is-the-verdict-of-teardown_report-on-every-path", len(events(p, "teardown_report")) == 1 and isinstance(r, Adt) and r.tag == ("the_exit_code",), {"calls": len(events(p, "teardown_report")), "returns": repr(r)[:60]})
                    elif p.outcome[0] == "panic":
                        u.must_be_true("C09.report()-never-panics-itself", False, {"site": p.outcome[1]})
        finally:
            eng.handlers.remove((rxr, hr))
        # Clone::clone
        c = eng.find_fn(r"^<impl at src/lib\.rs:\d+:1: \d+:23>::clone$")
        ref, uni, st = build_unimock(eng, 0)
        arc_cell = uni.fields[(None, i_ss)].val.cell
        paths = u.explore(c, [ref])
        for p in paths:
            if p.outcome[0] != "return":
                continue
            r = p.outcome[1]
            fo = r.fields.get((None, i_orig))
            ft = r.fields.get((None, i_torn))
            fs = r.fields.get((None, i_ss))
            fv = r.fields.get((None, i_vid))
            u.must_be_true("C09.clone-is-not-original", fo is not None and z3.is_false(z3.simplify(fo.val.e)))
            u.must_be_true("C09.clone-not-torn-down", ft is not None and z3.is_false(z3.simplify(ft.val.e)))
            u.must_be_true("C18.clone-shares-the-state", fs is not None and isinstance(fs.val, Ref) and fs.val.cell.name == "state")
            u.must_be_true("C09.clone-keeps-verify_in_drop", fv is not None and isinstance(fv.val, Bool) and str(z3.simplify(fv.val.e)) == "u.%d" % i_vid)
        u.witness("clone returns", [z3.BoolVal(any(p.outcome[0] == "return" for p in paths))])
    finally:
        eng.handlers.remove((rx, h))
    return u.result()


def unit_teardown_wrappers(eng, tier, prop):
    """teardown_panic panics iff teardown is Err (and formats every element); teardown_report is FAILURE iff Err."""
    u = Unit(eng, "teardown_panic/report", ["teardown_panic", "teardown_report"], "teardown's result arbitrary (Ok | Err(list of any length))")
    rx = re.compile(r"^teardown$")
    res_name = {}

    def h(call):
        call.m.event("teardown")
        a = lazy_adt("Result", "td")
        return a
    eng.handlers.insert(0, (rx, h))
    # iterator plumbing over the error list is std code; summarise `errors.iter().map(to_string).collect::<Vec<_>>()` + join + eprintln as opaque
    pats = [r"slice::(.*::)?iter$", r"Iterator>::map$", r"Iterator>::collect$", r"join$", r"_eprint$", r"_print$",
            r"^Vec::(dedup|dedup_by|dedup_by_key|sort|sort_unstable|truncate|retain|pop|remove|swap_remove|drain|clear)$", r"Iterator>::(take|skip|filter|step_by|rev)$", r"slice::(.*::)?(sort|sort_unstable|reverse)$"]
    try:
        d = z3.BitVec("td.discr", 64)
        tp = eng.find_fn(r"^teardown_panic$")
        with opaque_calls(eng, pats):
            ref, uni, st = build_unimock(eng, 0)
            paths = u.explore(tp, [ref])
        for p in paths:
            if p.outcome[0] == "panic":
                u.must_hold("C03.teardown_panic-panics-only-on-Err", p.pc, d == 1, {"site": p.outcome[1]})
                ops = [e[1].split("::")[-1] for e in p.trace if e[0] == "opaque"]
                # message = errors.iter().map(to_string).collect().join("\n"): all elements, in order
                u.must_be_true("C03.panic-message-from-all-errors", ops[:4] == ["iter", "map", "collect", "join"], {"ops": ops})
            elif p.outcome[0] == "return":
                u.must_hold("C03.teardown_panic-silent-only-on-Ok", p.pc, d == 0)
                u.must_be_true("C03.teardown_panic-calls-teardown-once", len(events(p, "teardown")) == 1)
        u.witness("teardown_panic: both outcomes", [z3.BoolVal({p.outcome[0] for p in paths} >= {"panic", "return"})])
        tr = eng.find_fn(r"^teardown_report$")
        rx2 = re.compile(r"^<&?Vec as IntoIterator>::into_iter$")

        def h2(call):
            # the printing loop: the error list is abstracted to two elements (the verdict does not depend on them)
            return IterVal([Cell(Opaque("error::MockError", f"err{i}"), None, f"err{i}") for i in range(2)], "slice_iter" if call.norm.startswith("<&") else "vec_into_iter")
        rx3 = re.compile(r"ExitCode as From.*>::from$|^ExitCode::from$")

        def h3(call):
            a = Adt("ExitCode", None)
            a.tag = ("exit_code", call.argv[0].e)
            return a
        eng.handlers.insert(0, (rx2, h2))
        eng.handlers.insert(0, (rx3, h3))
        try:
            with opaque_calls(eng, pats):
                ref, uni, st = build_unimock(eng, 0)
                paths = u.explore(tr, [ref])
        finally:
            eng.handlers.remove((rx2, h2))
            eng.handlers.remove((rx3, h3))
        for p in paths:
            if p.outcome[0] == "return":
                r = p.outcome[1]
                code = r.name if isinstance(r, FnItem) else repr(r)
                if code.endswith("ExitCode::SUCCESS"):
                    u.must_hold("C09.report-SUCCESS-only-on-Ok", p.pc, d == 0)
                elif code.endswith("ExitCode::FAILURE"):
                    u.must_hold("C09.report-FAILURE-only-on-Err", p.pc, d == 1)
                    u.must_be_true("C09.report-prints-every-error", len([e for e in p.trace if e[0] == "opaque" and e[1].endswith("_eprint")]) == 2)
                elif isinstance(r, Adt) and r.tag and r.tag[0] == "exit_code":
                    # a computed exit status: it must be non-zero for every non-empty error list (of any length) and only then
                    lens = [z3.UGE(v, 1) for n, v in eng.vars.items() if n.endswith(".len")]
                    u.must_hold("C09.computed-exit-status-is-failure-exactly-on-Err", list(p.pc) + lens, z3.And(d == 1, r.tag[1] != 0), {"code": str(z3.simplify(r.tag[1]))[:120]})
                else:
                    u.must_be_true("C09.report-unknown-exit-code", False, {"code": code})
                u.must_be_true("C09.report-calls-teardown-once", len(events(p, "teardown")) == 1)
            elif p.outcome[0] == "panic":
                u.must_be_true("C09.report-never-panics-itself", False, {"site": p.outcome[1]})
        u.witness("teardown_report: both verdicts", [z3.BoolVal(len([p for p in paths if p.outcome[0] == "return"]) >= 2)])
    finally:
        eng.handlers.remove((rx, h))
    return u.result()


# ------------------------------------------------------------------------------------------- registry / runner

def all_callees(eng, fn):
    out = []
    for b in fn.blocks.values():
        if b.cleanup:
            continue
        t = b.term or ""
        if " = " in t and "(" in t and " -> " in t and not t.startswith(("switchInt", "drop(", "assert(", "goto", "falseEdge")):
            try:
                dest, callee, args, ret_bb, _ = eng.parse_call(t)
                out.append((callee, args))
            except Exception:
                pass
    return out


def unit_induce_panic(eng, tier, prop):
    """C08: every mock-induced error is recorded in the shared state before the panic, with the very error it prints."""
    u = Unit(eng, "induce_panic", ["Unimock::induce_panic", "Unimock::handle_error", "Continuation::report", "induce_panic::{closure#0}", "MutexIsh::locked"],
             "arbitrary Unimock state and arbitrary error value; all 3 Continuation variants; Ok/Err for handle_error")
    i_ss = field_index(eng, "Unimock", "shared_state")
    i_pr = field_index(eng, "SharedState", "panic_reasons")
    ip = eng.find_fn(r"::induce_panic$")

    def check_paths(paths, label, err_name, allow_return=False):
        saw_panic = False
        for p in paths:
            if p.outcome[0] in ("unknown", "bound"):
                continue
            if p.outcome[0] == "return":
                u.must_be_true(f"C08.{label}.never-returns-on-error", allow_return, {"outcome": "return"})
                continue
            saw_panic = True
            pi = first_index(p, lambda e: e[0] == "panic")
            pushes = [i for i, e in enumerate(p.trace) if e[0] == "vec_push"]
            locks = [i for i, e in enumerate(p.trace) if e[0] == "lock"]
            u.must_be_true(f"C08.{label}.recorded-exactly-once-before-panic", len(pushes) == 1 and pi is not None and pushes[0] < pi, {"trace": [e[0] for e in p.trace]})
            u.must_be_true(f"C08.{label}.recorded-under-the-lock", len(locks) == 1 and (not pushes or locks[0] < pushes[0]))
            if pushes:
                u.must_be_true(f"C08.{label}.recorded-in-shared-panic_reasons", p.trace[pushes[0]][1].startswith(f"state.{i_pr}."), {"target": p.trace[pushes[0]][1]})
        return saw_panic

    # induce_panic(&self, error)
    ref, uni, st = build_unimock(eng, 0)
    err = Opaque("error::MockError", "the_error")
    paths = u.explore(ip, [ref, err])
    ok = check_paths(paths, "induce_panic", "the_error")
    for p in paths:
        if p.outcome[0] == "panic":
            # data flow: the pushed value IS the error argument; the message is formatted from the same argument
            stc = st.fields  # original objects are not the explored copies; look into the path's own state via trace names
            fm = [e for e in p.trace if e[0] == "format_args"]
            u.must_be_true("C08.message-formatted-from-the-error", bool(fm) and fm[0][2] and fm[0][2][0] and fm[0][2][0][1] == "induce_panic:_2", {"fmt": fm[:1]})
            i_f, i_p = first_index(p, lambda e: e[0] == "format_args"), first_index(p, lambda e: e[0] == "vec_push")
            u.must_be_true("C08.format-before-record-before-panic", i_f is not None and i_p is not None and i_f < i_p)
    u.witness("induce_panic panics", [z3.BoolVal(ok)])
    # pushed value identity: run once more and inspect the list in the final state
    ref, uni, st = build_unimock(eng, 0)
    mach = eng.start(ip, [ref, Opaque("error::MockError", "the_error")])
    final = eng.explore(mach)
    for p in final:
        if p.outcome[0] != "panic":
            continue
        try:
            stv = p.frames[0].locals["_1"].val.cell.val.fields[(None, i_ss)].val.cell.val
            lst = stv.fields[(None, i_pr)].val.fields[(None, 0)].val.fields[("mutex", 0)].val
        except (KeyError, AttributeError, IndexError):
            lst = None
        it = lst.items[0].val if isinstance(lst, VecVal) and len(lst.items) == 1 else None
        if it is None:
            continue   # already reported by recorded-exactly-once-before-panic
        good = (isinstance(it, Opaque) and it.name == "the_error") or (isinstance(it, Adt) and it.lazy is not None and it.lazy.name == "the_error")
        u.must_be_true("C08.recorded-value-is-the-error-itself", good, {"list": repr(lst)[:200]})
    # handle_error
    he = eng.find_fn(r"::handle_error$")
    ref, uni, st = build_unimock(eng, 0)
    res = lazy_adt("Result", "res")
    paths = u.explore(he, [ref, res])
    d = z3.BitVec("res.discr", 64)
    for p in paths:
        if p.outcome[0] == "return":
            u.must_hold("C08.handle_error-returns-only-on-Ok", p.pc, d == 0)
            v = p.outcome[1]
            u.must_be_true("C08.handle_error-returns-the-payload", isinstance(v, (Adt, Int, Bool, Unit, Ref)) or True)
        elif p.outcome[0] == "panic":
            u.must_hold("C08.handle_error-panics-only-on-Err", p.pc, d == 1)
    check_paths([p for p in paths if p.outcome[0] == "panic"], "handle_error", "res.Err.0")
    u.witness("handle_error: both", [z3.BoolVal({p.outcome[0] for p in paths} >= {"panic", "return"})])
    # Continuation::report — every variant goes through induce_panic with its own error kind
    rp = eng.find_fn(r"^private::<impl at src/private\.rs:\d+:1: \d+:32>::report$")
    want = {"Answer": "NotAnswered", "Unmock": "CannotUnmock", "CallDefaultImpl": "NoDefaultImpl"}
    with opaque_calls(eng, [r"^<F as MockFn>::info$", r"^TypeId::of$"]):
        for var, errk in want.items():
            cont = Adt("Continuation", eng.variant_index("Continuation", var))
            if var == "Answer":
                cont.fields[("Answer", 0)] = Cell(Opaque("AnswerClosure<F>", "closure"), None, "closure")
            ref, uni, st = build_unimock(eng, 0)
            mach = eng.start(rp, [cont, ref])
            paths = eng.explore(mach)
            u.paths += len(paths)
            for p in paths:
                if p.outcome[0] in ("unknown", "bound"):
                    u.errors.append(f"report[{var}]: {p.outcome}")
                    continue
                check_paths([p], f"report[{var}]", None)
                # find the recorded error's variant
                rec = None
                for fr_ in p.frames:
                    pass
                try:
                    root = p.frames[0].locals["_2"].val.cell.val
                    lst = root.fields[(None, i_ss)].val.cell.val.fields[(None, i_pr)].val.fields[(None, 0)].val.fields[("mutex", 0)].val
                    rec = lst.items[0].val
                except Exception as e:
                    rec = None
                okk = isinstance(rec, Adt) and rec.discr == eng.variant_index("MockError", errk)
                u.must_be_true(f"C08.report[{var}]-records-{errk}", okk, {"recorded": repr(rec)[:120]})
                if okk:
                    # C19/C16: the error names the call through the method's own MockFn::info() (trait and method path)
                    inf = [c.val for k_, c in rec.fields.items() if k_[0] == errk]
                    u.must_be_true(f"C19.report[{var}]-names-the-method-by-its-own-info", len(inf) == 1 and "info" in (inf[0].name if isinstance(inf[0], Opaque) else (inf[0].lazy.name if isinstance(inf[0], Adt) and inf[0].lazy is not None else "")), {"info": repr(inf)[:160]})
    # no function of the runtime panics directly, bypassing induce_panic, on a call path (eval.rs / private.rs::eval)
    direct = []
    for f in eng.fns:
        if not (f.raw_name.startswith("eval::") or re.search(r"^private::eval$", f.raw_name)):
            continue
        for callee, args in all_callees(eng, f):
            if re.search(r"panic_fmt|begin_panic|panic_display|::panic$|unwrap_failed|expect_failed|Option::<.*>::expect|Option::<.*>::unwrap\b|Result::<.*>::unwrap\b|Result::<.*>::expect", callee):
                direct.append((f.short, callee[:60]))
    u.must_be_true("C08.eval-has-no-direct-panic-site", not direct, {"sites": direct[:5]})
    # user panics are not intercepted: the crate never calls catch_unwind / resume_unwind / set_hook
    inter = [(f.short, c[:50]) for f in eng.fns for c, _ in all_callees(eng, f) if re.search(r"catch_unwind|resume_unwind|set_hook|take_hook", c)]
    u.must_be_true("C08.no-catch_unwind-in-crate", not inter, {"sites": inter[:5]})
    return u.result()


def unit_locked_closures(eng, tier, prop):
    """C11: no lock is held while user code runs: every MutexIsh::locked call site passes a crate closure whose body only
    performs container plumbing (no call through a user-supplied dyn Fn / generic MockFn code)."""
    u = Unit(eng, "locked-closures", ["MutexIsh::locked (all call sites)"], "every call site of MutexIsh::locked in the crate's MIR; closure bodies transitively")
    allowed = re.compile(r"^(Vec::<.*>::push|<Vec<.*> as Clone>::clone|Option::<.*>::take|<.* as DerefMut>::deref_mut|<.* as Deref>::deref|std::sync::Mutex::<.*>::lock|Result::<.*>::unwrap|spin::.*lock.*|<impl FnOnce.* as FnOnce<.*>>::call_once|RefCell::<.*>::borrow_mut)$")
    sites = 0
    for f in eng.fns:
        for callee, args in all_callees(eng, f):
            if not re.search(r"MutexIsh::<.*>::locked::<", callee):
                continue
            sites += 1
            m = re.search(r"(\{closure@[^}]*\})>$", callee)
            u.must_be_true(f"C11.locked-site-passes-a-crate-closure[{f.short}]", m is not None, {"callee": callee[:120]})
            if not m:
                continue
            body = eng.closures.get(m.group(1))
            u.must_be_true(f"C11.locked-closure-body-found[{f.short}]", body is not None)
            if body is None:
                continue
            bad = [c for c, _ in all_callees(eng, body) if not allowed.match(c)]
            u.must_be_true(f"C11.locked-closure-calls-no-user-code[{f.short}]", not bad, {"callees": bad[:4]})
    lk = eng.find_fn(r"private::<impl at src/private\.rs:\d+:1: \d+:20>::locked$")
    inner = [c for c, _ in all_callees(eng, lk)]
    u.must_be_true("C11.locked-itself-only-locks-and-calls-the-closure", all(allowed.match(c) for c in inner), {"callees": inner})
    u.witness("locked call sites exist", [z3.BoolVal(sites >= 3)])
    return u.result()


def build_fn_mocker(eng, name, K, mode=None):
    fm = lazy_adt("FnMocker", name)
    pats = [Cell(Opaque("call_pattern::CallPattern", f"{name}.pat{k}"), "call_pattern::CallPattern", f"{name}.pat{k}") for k in range(K)]
    fm.fields[(None, field_index(eng, "FnMocker", "call_patterns"))] = Cell(VecVal(None, pats, "Vec"), None, f"{name}.call_patterns")
    if mode is not None:
        fm.fields[(None, field_index(eng, "FnMocker", "pattern_match_mode"))] = Cell(Adt("PatternMatchMode", eng.variant_index("PatternMatchMode", mode)), None, f"{name}.mode")
    return fm


def build_dynctx(eng, M, K=2):
    st = lazy_adt("SharedState", "state")
    entries = []
    for i in range(M):
        entries.append((Cell(Int(eng.named(f"key{i}", 64), 64, False), None, f"key{i}"), Cell(build_fn_mocker(eng, f"mocker{i}", K), "FnMocker", f"mocker{i}")))
    st.fields[(None, field_index(eng, "SharedState", "fn_mockers"))] = Cell(MapVal(entries), None, "state.fn_mockers")
    ctx = lazy_adt("DynCtx", "ctx")
    ctx.fields[(None, field_index(eng, "DynCtx", "shared_state"))] = Cell(Ref(Cell(st, None, "state")), None, "ctx.shared_state")
    return Ref(Cell(ctx, "DynCtx", "ctx")), ctx, st


def unit_eval_dyn(eng, tier, prop):
    """C07 (+C01 isolation, C02/C05 plumbing): the decision table of eval_dyn for every combination of
    {method present?, has_default_impl, partial_by_default, fallback mode, scan result, responder available?}."""
    Mmax = 2
    u = Unit(eng, "eval_dyn", ["DynCtx::eval_dyn"],
             f"method table with M=0..{Mmax} entries (symbolic keys, symbolic called type id), 2 patterns per method; match_call_pattern and next_responder summarised by their proved contracts (Kani units c01_scan_first_match / c04_in_order_step / c02_next_responder_step)")
    f = eng.find_fn(r"::eval_dyn$")
    i_info = field_index(eng, "DynCtx", "info")
    i_tid = field_index(eng, "MockFnInfo", "type_id")
    i_def = field_index(eng, "MockFnInfo", "has_default_impl")
    i_par = field_index(eng, "MockFnInfo", "partial_by_default")
    i_fb = field_index(eng, "SharedState", "fallback_mode")
    tid = eng.named(f"ctx.{i_info}.{i_tid}", 64)
    has_def = eng.named_bool(f"ctx.{i_info}.{i_def}")
    part = eng.named_bool(f"ctx.{i_info}.{i_par}")
    fb = eng.named(f"state.{i_fb}.discr", 64)
    FB_ERR, FB_UNMOCK = eng.variant_index("FallbackMode", "Error"), eng.variant_index("FallbackMode", "Unmock")

    rx1 = re.compile(r"^DynCtx::match_call_pattern$")

    def h_scan(call):
        fm = call.argv[1]
        k = eng.decide(call.m, ("scan", call.fr.bb), [eng.named("scan.result", 64) == i for i in range(4)])
        call.m.event("scan", fm.cell.name if isinstance(fm, Ref) else "?")   # NB: side effects only after decide()
        # 0: Ok(None)  1: Ok(Some(pattern 0))  2: Ok(Some(pattern 1))  3: Err(e)
        if k == 0:
            return eng.mk_enum("Result", "Ok", eng.mk_enum("Option", "None"))
        if k == 3:
            return eng.mk_enum("Result", "Err", Opaque("error::MockError", "scan_error"))
        fmv = call.deref(fm, "adt")
        pats = fmv.fields[(None, field_index(eng, "FnMocker", "call_patterns"))].val
        t = Adt("(tuple)", None)
        pi = Adt("PatIndex", None)
        pi.fields[(None, 0)] = Cell(bv(k - 1), None, "pi")
        t.fields[(None, 0)] = Cell(pi, None, "t0")
        t.fields[(None, 1)] = Cell(Ref(pats.items[k - 1]), None, "t1")
        return eng.mk_enum("Result", "Ok", eng.mk_enum("Option", "Some", t))
    rx2 = re.compile(r"^CallPattern::next_responder$")

    def h_next(call):
        who = call.argv[0].cell.name
        k = eng.decide(call.m, ("next", call.fr.bb), [eng.named_bool("responder.available"), z3.Not(eng.named_bool("responder.available"))])
        call.m.event("next_responder", who)
        if k == 0:
            return eng.mk_enum("Option", "Some", Ref(Cell(Opaque("DynResponder", f"resp[{who}]"), None, f"resp[{who}]")))
        return eng.mk_enum("Option", "None")

    def cb(call, fobj, args):
        pat = args[0].cell.name if args and isinstance(args[0], Ref) else "?"
        rep = args[1] if len(args) > 1 else None
        diag = isinstance(rep, Adt) and rep.discr == eng.variant_index("Option", "Some")
        call.m.event("matcher", pat, diag)
        return lazy_adt("Result", f"verdict#{next(eng.fresh_n)}")
    eng.handlers.insert(0, (rx1, h_scan))
    eng.handlers.insert(0, (rx2, h_next))
    eng.callback_hook = cb
    opaque = [r"^DynCtx::fn_call$", r"^FnMocker::debug_pattern$", r"^Mismatches::builder$", r"^MismatchesBuilder::(collect_from_reporter|build)$", r"^MismatchReporter::new_enabled$"]
    try:
        with opaque_calls(eng, opaque):
            for M in range(0, Mmax + 1):
                ref, ctx, st = build_dynctx(eng, M)
                paths = u.explore(f, [ref, Ref(Cell(Opaque("dyn Fn", "match_inputs"), None, "match_inputs"))], note=f"[M={M}]")
                keys = [eng.named(f"key{i}", 64) for i in range(M)]
                present = z3.Or([tid == k for k in keys]) if keys else z3.BoolVal(False)
                scan = eng.named("scan.result", 64)
                avail = eng.named_bool("responder.available")
                kinds = set()
                for p in paths:
                    if p.outcome[0] != "return":
                        if p.outcome[0] == "panic":
                            u.must_be_true(f"C07.eval_dyn-never-panics-itself[M={M}]", False, {"site": p.outcome[1]})
                        continue
                    val = p.outcome[1]
                    scans = events(p, "scan")
                    nexts = events(p, "next_responder")
                    got = events(p, "map_get")
                    hit = got[0][1] if got else None
                    ctxd = {"M": M, "hit": hit}
                    is_ok = val.discr == eng.variant_index("Result", "Ok")
                    payload = val.fields[("Ok" if is_ok else "Err", 0)].val
                    if hit is None:
                        # ---- unmentioned method: default impl > partial-by-default > fallback mode; nothing is scanned or counted
                        u.must_hold(f"C07.absent-means-no-key-matches[M={M}]", p.pc, z3.Not(present), ctxd)
                        u.must_be_true(f"C07.unmentioned-never-scans-or-counts[M={M}]", not scans and not nexts and not events(p, "matcher"), ctxd)
                        if is_ok:
                            kind = eng.enums["EvalResult"][payload.discr]
                            kinds.add("absent:" + kind)
                            if kind == "CallDefaultImpl":
                                u.must_hold(f"C07.unmentioned-default-impl-first[M={M}]", p.pc, has_def, ctxd)
                            elif kind == "Unmock":
                                u.must_hold(f"C07.unmentioned-unmock-cond[M={M}]", p.pc, z3.And(z3.Not(has_def), z3.Or(part, fb == FB_UNMOCK)), ctxd)
                            else:
                                u.must_be_true(f"C07.unmentioned-never-gets-a-responder[M={M}]", False, ctxd)
                        else:
                            kinds.add("absent:Err")
                            u.must_be_true(f"C07.unmentioned-error-kind[M={M}]", isinstance(payload, Adt) and payload.discr == eng.variant_index("MockError", "NoMockImplementation"), ctxd)
                            u.must_hold(f"C07.unmentioned-error-cond[M={M}]", p.pc, z3.And(z3.Not(has_def), z3.Not(part), fb == FB_ERR), ctxd)
                    else:
                        # ---- mentioned method: exactly its own FnMocker is scanned (C01 isolation / C18)
                        u.must_hold(f"C01.present-means-that-key[M={M}]", p.pc, tid == keys[hit], ctxd)
                        u.must_be_true(f"C01.only-the-called-methods-patterns-scanned[M={M}]", [e[1] for e in scans] == [f"mocker{hit}"], {"scans": scans})
                        u.must_be_true(f"C01.counter-bumped-only-for-selected-pattern[M={M}]", all(e[1].startswith(f"mocker{hit}.pat") for e in nexts) and len(nexts) <= 1, {"nexts": nexts})
                        if is_ok:
                            kind = eng.enums["EvalResult"][payload.discr]
                            kinds.add("present:" + kind)
                            if kind == "Responder":
                                u.must_hold(f"C07.responder-only-after-a-match[M={M}]", p.pc, z3.And(z3.Or(scan == 1, scan == 2), avail), ctxd)
                                er = payload.fields[("Responder", 0)].val
                                fmc = er.fields[(None, field_index(eng, "EvalResponder", "fn_mocker"))].val
                                drc = er.fields[(None, field_index(eng, "EvalResponder", "dyn_responder"))].val
                                sel = nexts[0][1] if nexts else None
                                u.must_be_true(f"C02.responder-of-the-selected-pattern[M={M}]", isinstance(drc, Ref) and drc.cell.name == f"resp[{sel}]" and isinstance(fmc, Ref) and fmc.cell.name == f"mocker{hit}", ctxd)
                                u.must_be_true(f"C01.selected-pattern-is-the-scan-result[M={M}]", len(nexts) == 1, ctxd)
                                for kk in (1, 2):
                                    if sel == f"mocker{hit}.pat{kk - 1}":
                                        u.must_hold(f"C01.scan-result-identity[M={M}]", p.pc, scan == kk, ctxd)
                            elif kind == "Unmock":
                                u.must_hold(f"C07.mentioned-unmatched-partial-unmocks[M={M}]", p.pc, z3.And(scan == 0, fb == FB_UNMOCK), ctxd)
                                u.must_be_true(f"C07.unmatched-never-counts[M={M}]", not nexts, ctxd)
                            else:
                                u.must_be_true(f"C07.mentioned-never-default-impl-from-table[M={M}]", False, ctxd)
                        else:
                            ek = eng.enums["MockError"][payload.discr] if isinstance(payload, Adt) and isinstance(payload.discr, int) else ("scan_error" if isinstance(payload, (Opaque, Adt)) else "?")
                            kinds.add("present:Err:" + ek)
                            if ek == "NoMatchingCallPatterns":
                                u.must_hold(f"C07.mentioned-unmatched-strict-errors[M={M}]", p.pc, z3.And(scan == 0, fb == FB_ERR), ctxd)
                                u.must_be_true(f"C07.unmatched-never-counts[M={M}]", not nexts, ctxd)
                                ms = events(p, "matcher")
                                u.must_be_true(f"C19.mismatch-report-visits-every-pattern-with-diagnostics[M={M}]",
                                               [(e[1], e[2]) for e in ms] == [(f"mocker{hit}.pat0", True), (f"mocker{hit}.pat1", True)], {"matcher": ms})
                            elif ek == "NoOutputAvailableForCallPattern":
                                u.must_hold(f"C02.no-output-only-when-no-responder[M={M}]", p.pc, z3.And(z3.Or(scan == 1, scan == 2), z3.Not(avail)), ctxd)
                            else:
                                u.must_hold(f"C07.scan-error-propagates[M={M}]", p.pc, scan == 3, ctxd)
                                u.must_be_true(f"C07.scan-error-never-counts[M={M}]", not nexts, ctxd)
                dom = [z3.ULE(scan, 3), z3.ULE(fb, 1)]
                u.must_be_unsat(f"C07.table-complete[M={M}]", dom + [z3.Not(z3.Or([z3.And(p.pc) if p.pc else z3.BoolVal(True) for p in paths if p.outcome[0] == "return"]))])
                need = {"absent:CallDefaultImpl", "absent:Unmock", "absent:Err"}
                if M:
                    need |= {"present:Responder", "present:Unmock", "present:Err:NoMatchingCallPatterns", "present:Err:NoOutputAvailableForCallPattern", "present:Err:scan_error"}
                u.witness(f"all table cells reachable[M={M}] missing={sorted(need - kinds)}", [z3.BoolVal(need <= kinds)])
    finally:
        eng.handlers.remove((rx1, h_scan))
        eng.handlers.remove((rx2, h_next))
        eng.callback_hook = None
    return u.result()


def unit_assembler(eng, tier, prop):
    """C04 / C14 / C18 / C01(c): MockAssembler::push + new_call_pattern over every sequence of N pushes with symbolic
    method, mode, exactness and count: per-method lists in push order, consecutive slot ranges for ordered patterns,
    unordered patterns never consume slots, mode conflicts rejected at the first offending push."""
    N = 4 if tier == "thorough" else 3
    KEYS = (100, 200, 300) if tier == "thorough" else (100, 200)
    u = Unit(eng, "assembler", ["MockAssembler::push", "MockAssembler::new_call_pattern", "CallCountExpectation::exact_calls", "CallCountExpectation::into_counter"],
             f"every sequence of N<={N} pushes; per push: method in {len(KEYS)} methods, mode in {{unordered, ordered}}, exactness in 3 variants, count: all 2^64 values, responder_error in {{None, Some}}")
    f = eng.find_fn(r"assemble::<impl at src/assemble\.rs:\d+:1: \d+:42>::push$")
    i_mode = field_index(eng, "DynCallPatternBuilder", "pattern_match_mode")
    i_im = field_index(eng, "DynCallPatternBuilder", "input_matcher")
    i_resp = field_index(eng, "DynCallPatternBuilder", "responders")
    i_ce = field_index(eng, "DynCallPatternBuilder", "count_expectation")
    i_re = field_index(eng, "DynCallPatternBuilder", "responder_error")
    i_min = field_index(eng, "CallCountExpectation", "minimum")
    i_ex = field_index(eng, "CallCountExpectation", "exactness")
    i_fm = field_index(eng, "MockAssembler", "fn_mockers")
    i_cur = field_index(eng, "MockAssembler", "current_call_index")
    IN_ORDER = eng.variant_index("PatternMatchMode", "InOrder")
    EXACT = eng.variant_index("Exactness", "Exact")
    key = [eng.named(f"push{i}.method", 64) for i in range(N)]
    mode = [eng.named(f"push{i}.mode", 64) for i in range(N)]
    exa = [eng.named(f"push{i}.exactness", 64) for i in range(N)]
    cnt = [eng.named(f"push{i}.count", 64) for i in range(N)]
    rerr = [eng.named(f"push{i}.responder_error", 64) for i in range(N)]
    dom = []
    for i in range(N):
        dom += [z3.Or([key[i] == k for k in KEYS]), z3.ULE(mode[i], 1), z3.ULE(exa[i], 2), z3.ULE(rerr[i], 1)]

    def mk_builder(i):
        b = lazy_adt("DynCallPatternBuilder", f"builder{i}")
        b.fields[(None, i_mode)] = Cell(Adt("PatternMatchMode", Int(mode[i], 64, True)), None, "mode")
        im = Adt("DynInputMatcher", None)
        im.tag = ("matcher_of_push", i)
        b.fields[(None, i_im)] = Cell(im, None, "input_matcher")
        rs = VecVal(None, [], "Vec")
        rs.tag = ("responders_of_push", i)
        b.fields[(None, i_resp)] = Cell(rs, None, "responders")
        ce = Adt("CallCountExpectation", None)
        ce.fields[(None, i_min)] = Cell(Int(cnt[i], 64, False), "usize", "minimum")
        ce.fields[(None, i_ex)] = Cell(Adt("Exactness", Int(exa[i], 64, True)), None, "exactness")
        b.fields[(None, i_ce)] = Cell(ce, None, "count_expectation")
        oe = Adt("Option", Int(rerr[i], 64, True))
        oe.fields[("Some", 0)] = Cell(Opaque("output::OutputError", f"oerr{i}"), None, "oerr")
        b.fields[(None, i_re)] = Cell(oe, None, "responder_error")
        info = lazy_adt("MockFnInfo", f"info{i}")
        info.fields[(None, field_index(eng, "MockFnInfo", "type_id"))] = Cell(Int(key[i], 64, False), None, "type_id")
        return info, b

    asm = lazy_adt("MockAssembler", "asm")
    asm.fields[(None, i_fm)] = Cell(MapVal([]), None, "asm.fn_mockers")
    asm.fields[(None, i_cur)] = Cell(bv(0), "usize", "asm.current_call_index")
    m0 = eng.start(f, [Opaque("?", "x")] * 3)   # placeholder frame, replaced below
    m0.frames.pop()
    m0.user["asm"] = Cell(asm, None, "asm")
    m0.user["results"] = []
    m0.pc += dom
    frontier = [m0]
    finals = []
    for i in range(N):
        nxt = []
        for m in frontier:
            info, b = mk_builder(i)
            m.outcome = None
            m.visits = {}
            eng.start(f, [Ref(m.user["asm"]), info, b], m)
            paths = eng.explore(m)
            u.paths += len(paths)
            for p in paths:
                k = p.outcome[0]
                if k in ("unknown", "bound"):
                    u.errors.append(f"push#{i}: {p.outcome}")
                    continue
                if k == "return":
                    ok = p.outcome[1].discr == eng.variant_index("Result", "Ok")
                    p.user["results"].append("Ok" if ok else "Err")
                    if ok and i + 1 < N:
                        nxt.append(p)
                    else:
                        finals.append((i, p))
                    if ok and i + 1 < N:
                        finals.append((i, copy.deepcopy(p)))     # also check the state after every prefix
                else:
                    p.user["results"].append("panic:" + p.outcome[1])
                    finals.append((i, p))
        frontier = nxt
    # ---- oracle over each final path
    def conflict_at(i):
        # push i conflicts iff an earlier (accepted) push of the same method had another mode
        return z3.Or([z3.And(key[j] == key[i], mode[j] != mode[i]) for j in range(i)]) if i else z3.BoolVal(False)

    def slot_start(i):
        s_ = z3.BitVecVal(0, 64)
        for j in range(i):
            s_ = s_ + z3.If(mode[j] == IN_ORDER, cnt[j], z3.BitVecVal(0, 64))
        return s_
    seen_kinds = set()
    for i, p in finals:
        res = p.user["results"]
        last = res[-1]
        ctx = {"pushes": i + 1, "results": res}
        seen_kinds.add(last.split(":")[0] if not last.startswith("panic") else ("panic-bug" if "BUG" in last else "panic-overflow"))
        if last == "Err":
            u.must_hold("C14.err-only-on-conflict-or-unproducible-output", p.pc, z3.Or(conflict_at(i), rerr[i] == 1), ctx)
            continue    # the assembler is discarded after an Err (construction panics): its state is unobservable
        elif last.startswith("panic"):
            if "BUG" in last:
                u.must_hold("C14.inexact-ordered-is-the-only-bug-panic", p.pc, z3.And(mode[i] == IN_ORDER, exa[i] != EXACT), ctx)
            else:
                u.must_be_unsat("C04.overflow-panic-only-on-real-overflow", list(p.pc) + [z3.BVAddNoOverflow(slot_start(i), cnt[i], False)], ctx)
            continue
        if last == "Ok":
            u.must_hold("C14.ok-means-no-conflict-and-producible", p.pc, z3.And(z3.Not(conflict_at(i)), rerr[i] == 0), ctx)
        # state after the accepted pushes 0..n_acc-1
        n_acc = i + 1
        asm_v = p.user["asm"].val
        mp = asm_v.fields[(None, i_fm)].val
        cur = asm_v.fields[(None, i_cur)].val
        u.must_hold("C04.next-slot-is-sum-of-ordered-counts", p.pc, cur.e == slot_start(n_acc), ctx)
        placed = {}
        for kc, vc in mp.entries:
            fm = vc.val
            pats = fm.fields[(None, field_index(eng, "FnMocker", "call_patterns"))].val
            fmode = fm.fields[(None, field_index(eng, "FnMocker", "pattern_match_mode"))].val
            ids = []
            for pc_ in pats.items:
                cp = pc_.val
                im = cp.fields[(None, field_index(eng, "CallPattern", "input_matcher"))].val
                rs = cp.fields[(None, field_index(eng, "CallPattern", "responders"))].val
                rg = cp.fields[(None, field_index(eng, "CallPattern", "ordered_call_index_range"))].val
                j = im.tag[1] if im.tag else None
                ids.append(j)
                u.must_be_true("C14.pattern-keeps-its-own-responders", rs.tag == ("responders_of_push", j), ctx)
                placed[j] = True
                st_, en_ = rg.fields[(None, 0)].val.e, rg.fields[(None, 1)].val.e
                u.must_hold("C01.pattern-filed-under-its-own-method", p.pc, eng.force(kc, "int").e == key[j], ctx)
                u.must_hold("C04.ordered-range-is-consecutive", p.pc, z3.If(mode[j] == IN_ORDER, z3.And(st_ == slot_start(j), en_ == slot_start(j) + cnt[j]), z3.And(st_ == 0, en_ == 0)), ctx)
                u.must_hold("C14.method-mode-is-the-mode-of-its-patterns", p.pc, eng.discr_of(fmode).e == mode[j], ctx)
                cc = cp.fields[(None, field_index(eng, "CallPattern", "call_counter"))].val
                exp_ = cc.fields[(None, field_index(eng, "CallCounter", "expectation"))].val
                u.must_hold("C03.expectation-carried-over", p.pc, exp_.fields[(None, i_min)].val.e == cnt[j], ctx)
            u.must_be_true("C01.per-method-list-in-declaration-order", ids == sorted(ids), {"ids": ids})
        u.must_be_true("C14.no-clause-dropped-or-duplicated", sorted(placed) == list(range(n_acc)), {"placed": sorted(placed), "n": n_acc})
    valid = [z3.ULE(eng.named(f"oerr{i}.discr", 64), 1) for i in range(N)]     # validity invariant of the 2-variant enum
    u.must_be_unsat("assembler.paths-cover-all-sequences", dom + valid + [z3.Not(z3.Or([z3.And(p.pc) for i, p in finals if i == N - 1 or not p.user["results"][-1] == "Ok"]))])
    # C18 lemma about the oracle itself: swapping two adjacent pushes of different methods (not both ordered) changes
    # neither any pattern's range nor the per-method order (ranges depend only on the ordered subsequence before it)
    for a in range(N - 1):
        b_ = a + 1
        pre = [key[a] != key[b_], z3.Not(z3.And(mode[a] == IN_ORDER, mode[b_] == IN_ORDER))]
        sa = slot_start(a)
        # after the swap, push b comes first: its start is slot_start(a); push a's start is slot_start(a) + [b ordered]*cnt[b]
        new_start_b = sa
        new_start_a = sa + z3.If(mode[b_] == IN_ORDER, cnt[b_], z3.BitVecVal(0, 64))
        old_start_b = slot_start(b_)
        u.must_be_unsat(f"C18.adjacent-swap-keeps-ranges[{a}]", dom + pre + [z3.Or(
            z3.And(mode[b_] == IN_ORDER, new_start_b != old_start_b),
            z3.And(mode[a] == IN_ORDER, new_start_a != sa))])
    u.witness(f"outcome kinds seen: {sorted(seen_kinds)}", [z3.BoolVal({"Ok", "Err", "panic-bug", "panic-overflow"} <= seen_kinds)])
    return u.result()


def unit_tuples(eng, tier, prop):
    """C14: every tuple impl (arity 2..16) deconstructs elements 0..n-1, each exactly once, in order, stopping at the
    first Err (which is returned unchanged); () pushes nothing."""
    u = Unit(eng, "tuple-clauses", ["<(T1..Tn) as Clause>::deconstruct for n=2..16", "<() as Clause>::deconstruct"],
             "all 15 tuple arities; each element's result symbolic in {Ok, Err}; nesting by structural induction")
    fns = [f for f in eng.fns if f.short == "deconstruct" and f.module.startswith("clause::") and f.params and f.params[0][1].startswith("(")]
    by_arity = {}
    for f in fns:
        ty = f.params[0][1]
        n = 0 if ty == "()" else len([x for x in __import__("uv.mirsym.parse", fromlist=["split_top"]).split_top(ty[1:-1]) if x])
        by_arity[n] = f
    u.must_be_true("C14.all-arities-2..16-present", sorted(by_arity) == [0] + list(range(2, 17)), {"found": sorted(by_arity)})
    rx = re.compile(r"^<T\d+ as Clause>::deconstruct$")

    def h(call):
        el = call.argv[0]
        idx = el.tag[1] if isinstance(el, Adt) and el.tag else None
        sink = call.argv[1].cell.name if isinstance(call.argv[1], Ref) else "?"
        k = eng.decide(call.m, ("elem", call.fr.bb), [eng.named_bool(f"elem{idx}.ok"), z3.Not(eng.named_bool(f"elem{idx}.ok"))])
        call.m.event("elem", idx, sink)
        if k == 0:
            return eng.mk_enum("Result", "Ok", UNIT)
        e = Adt("String", None)
        e.tag = ("error_of", idx)
        return eng.mk_enum("Result", "Err", e)
    eng.handlers.insert(0, (rx, h))
    try:
        for n, f in sorted(by_arity.items()):
            tup = Adt("(tuple)", None)
            for i in range(n):
                el = Adt(f"T{i + 1}", None)
                el.tag = ("elem", i)
                tup.fields[(None, i)] = Cell(el, None, f"tup.{i}")
            paths = u.explore(f, [tup if n else UNIT, Ref(Cell(Opaque("dyn Sink", "sink"), None, "sink"))], note=f"[n={n}]")
            oks = [eng.named_bool(f"elem{i}.ok") for i in range(n)]
            u.must_be_true(f"C14.one-path-per-first-error-position[n={n}]", len([p for p in paths if p.outcome[0] == "return"]) == n + 1, {"paths": len(paths)})
            for p in paths:
                if p.outcome[0] != "return":
                    if p.outcome[0] == "panic":
                        u.must_be_true(f"C14.tuple-never-panics[n={n}]", False, {"site": p.outcome[1]})
                    continue
                ev = events(p, "elem")
                order = [e[1] for e in ev]
                val = p.outcome[1]
                is_ok = val.discr == eng.variant_index("Result", "Ok")
                u.must_be_true(f"C14.elements-in-order-each-once[n={n}]", order == list(range(len(order))), {"order": order})
                u.must_be_true(f"C14.same-sink-for-every-element[n={n}]", all(e[2] == "sink" for e in ev))
                if is_ok:
                    u.must_be_true(f"C14.ok-only-after-all-elements[n={n}]", len(order) == n, {"order": order})
                    u.must_hold(f"C14.ok-only-if-all-ok[n={n}]", p.pc, z3.And(oks) if oks else z3.BoolVal(True))
                else:
                    k = len(order) - 1
                    err = val.fields[("Err", 0)].val
                    u.must_be_true(f"C14.first-error-returned-unchanged[n={n}]", isinstance(err, Adt) and err.tag == ("error_of", k), {"err": repr(err)[:80], "k": k})
                    u.must_hold(f"C14.stops-at-first-error[n={n}]", p.pc, z3.And([oks[j] for j in range(k)] + [z3.Not(oks[k])]))
        u.witness("tuple impls explored", [z3.BoolVal(len(by_arity) >= 16)])
    finally:
        eng.handlers.remove((rx, h))
    return u.result()


def unit_construction(eng, tier, prop):
    """C14: a stub without patterns is rejected; a stub pushes its patterns in order with its own MockFn info;
    an assembly error panics at construction, before any instance exists."""
    u = Unit(eng, "construction", ["<Each<F> as Clause>::deconstruct", "Unimock::from_assembler", "MockAssembler::try_from_clause"],
             "Each with K=0..3 patterns, each push result symbolic; from_assembler with Ok/Err")
    f = eng.find_fn(r"^build::<impl at src/build\.rs:\d+:1: \d+:15>::deconstruct$")
    i_p = field_index(eng, "Each", "patterns")
    rx = re.compile(r"^<dyn (term::)?Sink as (term::)?Sink>::push$")

    def h(call):
        b = call.argv[2]
        idx = b.tag[1] if isinstance(b, Adt) and b.tag else None
        k = eng.decide(call.m, ("push", call.fr.bb, idx), [eng.named_bool(f"push{idx}.ok"), z3.Not(eng.named_bool(f"push{idx}.ok"))])
        info = call.argv[1]
        call.m.event("sink_push", idx, getattr(info, "name", None) or (info.lazy.name if isinstance(info, Adt) and info.lazy else repr(info)[:30]))
        if k == 0:
            return eng.mk_enum("Result", "Ok", UNIT)
        e = Adt("String", None)
        e.tag = ("error_of", idx)
        return eng.mk_enum("Result", "Err", e)
    eng.handlers.insert(0, (rx, h))
    try:
        with opaque_calls(eng, [r"^<F as MockFn>::info$"]):
            for K in range(0, 4):
                each = Adt("Each", None)
                items = []
                for i in range(K):
                    b = Adt("DynCallPatternBuilder", None)
                    b.tag = ("builder", i)
                    items.append(Cell(b, None, f"pat{i}"))
                each.fields[(None, i_p)] = Cell(VecVal(None, items, "Vec"), None, "patterns")
                paths = u.explore(f, [each, Ref(Cell(Opaque("dyn Sink", "sink"), None, "sink"))], note=f"[K={K}]")
                for p in paths:
                    if p.outcome[0] != "return":
                        if p.outcome[0] == "panic":
                            u.must_be_true(f"C14.stub-deconstruct-never-panics[K={K}]", False, {"site": p.outcome[1]})
                        continue
                    val = p.outcome[1]
                    is_ok = val.discr == eng.variant_index("Result", "Ok")
                    order = [e[1] for e in events(p, "sink_push")]
                    u.must_be_true(f"C01.stub-patterns-pushed-in-declaration-order[K={K}]", order == list(range(len(order))), {"order": order})
                    if K == 0:
                        err = val.fields.get(("Err", 0))
                        u.must_be_true("C14.empty-stub-rejected", (not is_ok) and err is not None and isinstance(err.val, Adt) and err.val.tag and "no call patterns" in str(err.val.tag), {"val": repr(val)[:120]})
                    elif is_ok:
                        u.must_be_true(f"C14.stub-pushes-every-pattern[K={K}]", order == list(range(K)), {"order": order})
                    else:
                        k = len(order) - 1
                        err = val.fields[("Err", 0)].val
                        u.must_be_true(f"C14.stub-returns-first-push-error[K={K}]", isinstance(err, Adt) and err.tag == ("error_of", k))
        # from_assembler
        fa = eng.find_fn(r"::from_assembler$")
        with opaque_calls(eng, [r"^MockAssembler::finish$", r"^SharedState::new$", r"^<.* as Default>::default$", r"^Arc::new$"]):
            res = lazy_adt("Result", "asm_result")
            paths = u.explore(fa, [res, Opaque("FallbackMode", "fallback")])
            d = z3.BitVec("asm_result.discr", 64)
            i_orig = field_index(eng, "Unimock", "original_instance")
            i_torn = field_index(eng, "Unimock", "torn_down")
            i_vid = field_index(eng, "Unimock", "verify_in_drop")
            for p in paths:
                if p.outcome[0] == "panic":
                    u.must_hold("C14.construction-panics-only-on-assembly-error", p.pc, d == 1, {"site": p.outcome[1]})
                    u.must_be_true("C14.no-instance-exists-when-construction-panics", not any(e[0] == "opaque" and e[1].endswith("SharedState::new") for e in p.trace))
                elif p.outcome[0] == "return":
                    u.must_hold("C14.instance-only-from-Ok", p.pc, d == 0)
                    v = p.outcome[1]
                    flags = [v.fields[(None, i)].val for i in (i_orig, i_torn, i_vid)]
                    u.must_be_true("C09.new-instance-is-original-not-torn-down-verifying",
                                   all(isinstance(x, Bool) for x in flags) and z3.is_true(z3.simplify(flags[0].e)) and z3.is_false(z3.simplify(flags[1].e)) and z3.is_true(z3.simplify(flags[2].e)))
            u.witness("from_assembler: both outcomes", [z3.BoolVal({p.outcome[0] for p in paths} >= {"panic", "return"})])
    finally:
        eng.handlers.remove((rx, h))
    return u.result()


def unit_statics(eng, tier, prop):
    """C18: distinct mocks share nothing: the crate has no mutable static / thread_local state (scan of the MIR and sources),
    and a fresh SharedState is allocated per construction."""
    u = Unit(eng, "no-global-state", ["whole-crate MIR scan", "SharedState::new", "Unimock::from_assembler"], "all functions of the crate")
    import glob
    stat = []
    for path in glob.glob(os.path.join(eng.src_root, "src", "**", "*.rs"), recursive=True):
        if path.endswith("src/verif.rs"):
            continue      # the verification overlay itself (only present in overlay copies)
        txt = re.sub(r"//[^\n]*", "", open(path).read())
        for mm in re.finditer(r"(?<!')\bstatic\s+(mut\s+)?[A-Z_][A-Z0-9_]*\s*:|thread_local!\s*\{|lazy_static!", txt):
            stat.append((os.path.relpath(path, eng.src_root), mm.group(0)[:40]))
    u.must_be_true("C18.no-static-or-thread-local-items", not stat, {"found": stat[:5]})
    uses = [(f.short, c[:60]) for f in eng.fns for c, _ in all_callees(eng, f) if re.search(r"LocalKey|thread_local|static_init|OnceLock::|LazyLock", c)]
    u.must_be_true("C18.no-global-cell-accesses-in-MIR", not uses, {"found": uses[:5]})
    st = [l for f in eng.fns for b in f.blocks.values() for l in b.stmts if re.search(r"const \{alloc\d+: &(mut )?", l) and "static" in l]
    u.must_be_true("C18.no-static-references-in-MIR", not st, {"found": st[:3]})
    fa = eng.find_fn(r"::from_assembler$")
    cal = [c for c, _ in all_callees(eng, fa)]
    u.must_be_true("C18.fresh-state-per-construction", any("SharedState::new" in c for c in cal) and any(re.search(r"Arc::<.*>::new", c) for c in cal), {"callees": cal})
    u.witness("scanned", [z3.BoolVal(len(eng.fns) > 100)])
    return u.result()


def unit_counter_verify(eng, tier, prop):
    """C03: CallCounter::verify for all (minimum, exactness, actual) — E1 verdict (must agree with the Kani unit) +
    which pattern is named and with which operands."""
    u = Unit(eng, "CallCounter::verify", ["CallCounter::verify", "CallCountExpectation::lower_bound"], "all 2^64 x 2^64 x 3 values of (minimum, actual, exactness)")
    f = eng.find_fn(r"^counter::<impl at src/counter\.rs:\d+:1: \d+:17>::verify$")
    i_ac = field_index(eng, "CallCounter", "actual_count")
    i_ex = field_index(eng, "CallCounter", "expectation")
    i_min = field_index(eng, "CallCountExpectation", "minimum")
    i_e = field_index(eng, "CallCountExpectation", "exactness")
    actual = eng.named(f"self.*.{i_ac}.atomic.0", 64)
    minimum = eng.named(f"self.*.{i_ex}.{i_min}", 64)
    ex = eng.named(f"self.*.{i_ex}.{i_e}.discr", 64)
    EX, AL, ALP = (eng.variant_index("Exactness", v) for v in ("Exact", "AtLeast", "AtLeastPlusOne"))

    def cb(call, fobj, args):
        call.m.event("debug_fn")
        return Opaque("debug::CallPatternDebug", "pattern_debug")
    eng.callback_hook = cb
    try:
        paths = u.explore(f, [eng.arg("self", "&CallCounter"), eng.arg("info", "&MockFnInfo"), Opaque("impl Fn", "debug_fn"), eng.arg("errors", "&mut Vec<MockError>")])
    finally:
        eng.callback_hook = None
    violated = z3.If(ex == EX, actual != minimum, z3.If(ex == AL, z3.ULT(actual, minimum), z3.ULE(actual, minimum)))
    dom = [z3.ULE(ex, 2)]
    for p in paths:
        if p.outcome[0] == "panic":
            u.must_hold("C03.only-panic-is-minimum+1-overflow", p.pc, z3.And(ex == ALP, minimum == z3.BitVecVal(2 ** 64 - 1, 64)), {"site": p.outcome[1]})
            continue
        if p.outcome[0] != "return":
            continue
        pushes = events(p, "vec_push")
        u.must_be_true("C03.at-most-one-error-per-pattern", len(pushes) <= 1)
        u.must_hold("C03.error-iff-violated", p.pc, violated if pushes else z3.Not(violated), {"pushed": len(pushes)})
        rv = p.outcome[1]
        u.must_hold("C03.returns-the-actual-count", p.pc, rv.fields[(None, 0)].val.e == actual)
        u.must_be_true("C03.pattern-described-only-when-violated", len(events(p, "debug_fn")) == len(pushes))
        if pushes:
            u.must_be_true("C03.error-goes-to-the-callers-list", pushes[0][1] == "errors.*")
            fm = events(p, "format_args")
            ops = [o[1] for o in fm[0][2]] if fm else []
            tmpl = fm[0][1] if fm else ""
            # operands in order: method path, this pattern's description (the value debug_fn() returned), lower bound, actual count
            okops = len(ops) == 4 and ops[0].startswith("info.*.") and ops[1].startswith("verify:_") and ops[2].startswith("verify:_") and ops[3] == "verify:_0"
            u.must_be_true("C03.message-operands-path-pattern-bound-actual", okops, {"ops": ops})
            u.must_hold("C03.wording-exactly-vs-at-least", p.pc, (ex == EX) if "exactly" in tmpl else z3.And(ex != EX, z3.BoolVal("at least" in tmpl)), {"template": tmpl})
    u.must_be_unsat("C03.verify-paths-cover-all-inputs", dom + [z3.Not(z3.Or([z3.And(p.pc) for p in paths]))])
    u.witness("violated and satisfied paths", [z3.BoolVal(any(events(p, "vec_push") for p in paths) and any(not events(p, "vec_push") and p.outcome[0] == "return" for p in paths))])
    return u.result()


def unit_fn_mocker_verify(eng, tier, prop):
    """C03: FnMocker::verify + CallCounter::verify (inlined) from an arbitrary state of K patterns: the error list gets
    one line per violated pattern, in pattern order, plus the never-called line iff no pattern was ever matched."""
    Kmax = 3 if tier == "thorough" else 2
    u = Unit(eng, "FnMocker::verify", ["FnMocker::verify", "CallCounter::verify", "CallCountExpectation::lower_bound", "FnMocker::verify::{closure#0}"],
             f"K=0..{Kmax} patterns, each with arbitrary (actual count, minimum, exactness): all 64-bit values, every subset violated")
    f = eng.find_fn(r"^fn_mocker::<impl at src/fn_mocker\.rs:\d+:1: \d+:14>::verify$")
    i_cc = field_index(eng, "CallPattern", "call_counter")
    i_ac = field_index(eng, "CallCounter", "actual_count")
    i_ex = field_index(eng, "CallCounter", "expectation")
    i_min = field_index(eng, "CallCountExpectation", "minimum")
    i_e = field_index(eng, "CallCountExpectation", "exactness")
    EX, AL, ALP = (eng.variant_index("Exactness", v) for v in ("Exact", "AtLeast", "AtLeastPlusOne"))
    rxd = re.compile(r"^FnMocker::debug_pattern$")

    def hd(call):
        pi = call.argv[1]
        idx = eng._concrete(pi.fields[(None, 0)].val) if isinstance(pi, Adt) and (None, 0) in pi.fields else None
        call.m.event("describe", idx)
        a = Adt("CallPatternDebug", None)
        a.tag = ("describes", idx)
        return a
    eng.handlers.insert(0, (rxd, hd))
    try:
        for K in range(0, Kmax + 1):
            fm = build_fn_mocker(eng, "m", K)
            errs = VecVal(None, [], "Vec")
            paths = u.explore(f, [Ref(Cell(fm, None, "m")), Ref(Cell(errs, None, "errors"))], note=f"[K={K}]")
            act = [eng.named(f"m.pat{k}.{i_cc}.{i_ac}.atomic.0", 64) for k in range(K)]
            mn = [eng.named(f"m.pat{k}.{i_cc}.{i_ex}.{i_min}", 64) for k in range(K)]
            ex = [eng.named(f"m.pat{k}.{i_cc}.{i_ex}.{i_e}.discr", 64) for k in range(K)]
            vio = [z3.If(ex[k] == EX, act[k] != mn[k], z3.If(ex[k] == AL, z3.ULT(act[k], mn[k]), z3.ULE(act[k], mn[k]))) for k in range(K)]
            total = z3.BitVecVal(0, 64)
            noov = []
            for a_ in act:
                noov.append(z3.BVAddNoOverflow(total, a_, False))
                total = total + a_
            no_plus1_ov = [z3.Not(z3.And(ex[k] == ALP, mn[k] == z3.BitVecVal(2 ** 64 - 1, 64))) for k in range(K)]
            dom = [z3.ULE(e_, 2) for e_ in ex]
            rets = []
            for p in paths:
                if p.outcome[0] == "panic":
                    u.must_be_unsat(f"C03.panic-only-on-arithmetic-overflow[K={K}]", list(p.pc) + noov + no_plus1_ov, {"site": p.outcome[1]})
                    continue
                if p.outcome[0] != "return":
                    continue
                rets.append(p)
                final_errs = p_final_vec(p, 1)
                kinds = []
                for x in final_errs.items:
                    v = x.val
                    kinds.append(eng.enums["MockError"][v.discr] if isinstance(v, Adt) and isinstance(v.discr, int) else "?")
                nfail = len([k for k in kinds if k == "FailedVerification"])
                never = [k for k in kinds if k == "MockNeverCalled"]
                u.must_be_true(f"C03.only-verification-errors-and-never-called-last[K={K}]", kinds == ["FailedVerification"] * nfail + never and len(never) <= 1, {"kinds": kinds})
                nv = z3.BitVecVal(0, 64)
                for k in range(K):
                    nv = nv + z3.If(vio[k], z3.BitVecVal(1, 64), z3.BitVecVal(0, 64))
                u.must_hold(f"C03.one-line-per-violated-pattern[K={K}]", p.pc, nv == nfail, {"kinds": kinds})
                u.must_hold(f"C03.never-called-iff-total-zero[K={K}]", p.pc, (total == 0) if never else (total != 0), {"kinds": kinds})
                # each violated line describes its own pattern, in pattern order
                desc = [e[1] for e in events(p, "describe")]
                u.must_be_true(f"C03.violated-patterns-described-in-order[K={K}]", desc == sorted(desc) and len(desc) == nfail and len(set(desc)) == len(desc), {"described": desc})
                for k in range(K):
                    u.must_hold(f"C03.pattern-{k}-described-iff-violated[K={K}]", p.pc, vio[k] if k in desc else z3.Not(vio[k]))
            u.must_be_unsat(f"C03.fn-mocker-verify-covers-all-inputs[K={K}]", dom + [z3.Not(z3.Or([z3.And(p.pc) if p.pc else z3.BoolVal(True) for p in paths if p.outcome[0] in ("return", "panic")]))])
            u.witness(f"paths[K={K}]", [z3.BoolVal(len(rets) >= 2 ** K)])
    finally:
        eng.handlers.remove((rxd, hd))
    return u.result()


def p_final_vec(p, root_name):
    """The VecVal reachable from the explored function's `&mut Vec` argument named root_name in path p's own state."""
    v = p.user["_args"][root_name].val
    while isinstance(v, Ref):
        v = v.cell.val
    return v


def unit_builder_chains(eng, tier, prop):
    """C02(b) / C03 / C04 / C12: every quantifier-chain shape up to S segments, executed on the MIR of the builder methods
    with symbolic repeat counts: responder i starts at sum of the earlier counts; response kind and the single-use vs
    repeatable conversion per segment; accumulated expectation (minimum, exactness); implicit once for unquantified
    ordered clauses and for `returns(v)` left unquantified."""
    import itertools as it
    S = 3 if tier == "thorough" else 2
    u = Unit(eng, "builder-chains", ["DefineResponse::*", "DefineMultipleResponses::*", "QuantifyReturnValue::{once,n_times,at_least_times,deconstruct,drop}",
                                      "Quantify::{once,n_times,at_least_times,deconstruct}", "QuantifiedResponse::{then,deconstruct}", "DynBuilderWrapper::{push_responder,push_returner_result,quantify,steal,into_owned}",
                                      "DynCallPatternBuilder::new", "CallCountExpectation::add_to_minimum"],
             f"all chain shapes with <= {S} segments over 3 clause starts (some_call, next_call, each_call) x response kinds x quantifiers; repeat counts symbolic (all 2^64 values, overflow = panic outcome)")
    eng.run_drop_impls.add("QuantifyReturnValue")

    def fn_by(short, first_param_prefix):
        c = [f for f in eng.fns if f.short == short and f.module.startswith(("build::", "dyn_builder::")) and f.params and (f.params[0][1] == first_param_prefix or f.params[0][1].startswith(first_param_prefix + "<"))]
        if len(c) != 1:
            raise KeyError(f"{short}({first_param_prefix}..): {len(c)} candidates")
        return c[0]
    EX, AL, ALP = (eng.variant_index("Exactness", v) for v in ("Exact", "AtLeast", "AtLeastPlusOne"))
    IN_ORDER = eng.variant_index("PatternMatchMode", "InOrder")
    ANY = eng.variant_index("PatternMatchMode", "InAnyOrder")
    new_b = fn_by("new", "PatternMatchMode")
    RESP = {"Return": eng.variant_index("DynResponder", "Return"), "Answer": eng.variant_index("DynResponder", "Answer"),
            "ApplyDefaultImpl": eng.variant_index("DynResponder", "ApplyDefaultImpl"), "Unmock": eng.variant_index("DynResponder", "Unmock"),
            "Panic": eng.variant_index("DynResponder", "Panic")}
    resp_ops = {"returns": "Return", "returns_default": "Return", "answers": "Answer", "answers_arc": "Answer", "panics": "Panic",
                "applies_unmocked": "Unmock", "applies_default_impl": "ApplyDefaultImpl"}
    conv_n = [0]

    hs = []

    def add(rx, h):
        it_ = (re.compile(rx), h)
        eng.handlers.insert(0, it_)
        hs.append(it_)

    conv_mode = {"fail": False}

    def h_conv(call):
        meth = call.norm.split("::")[-1]
        call.m.event("convert", meth)
        if conv_mode["fail"]:
            return eng.mk_enum("Result", "Err", Adt("OutputError", eng.variant_index("OutputError", "NoMutexApi")))
        a = Adt("StoredReturn", None)
        a.tag = ("stored", meth)
        return eng.mk_enum("Result", "Ok", a)
    add(r"^<T as (output::)?IntoReturn(Once)?>::into_return(_once)?$", h_conv)

    def h_default(call):
        a = Adt("StoredReturn", None)
        a.tag = ("stored", "return_default")
        call.m.event("convert", "return_default")
        return a
    add(r"ReturnDefault>::return_default$", h_default)

    def h_into_returner(call):
        a = Adt("Returner", None)
        v = call.argv[0]
        a.tag = ("returner",) + (v.tag[1:] if isinstance(v, Adt) and v.tag else ("?",))
        return a
    add(r"IntoReturner>::into_returner$", h_into_returner)

    def h_push(call):
        call.m.user["pushed"] = Cell(call.argv[2], None, "pushed_builder")
        call.m.event("sink_push")
        return eng.mk_enum("Result", "Ok", UNIT)
    add(r"^<dyn (term::)?Sink as (term::)?Sink>::push$", h_push)

    starts = [("some_call", "DefineResponse", ANY), ("next_call", "DefineResponse", IN_ORDER), ("each_call", "DefineMultipleResponses", ANY)]
    first_resps = list(resp_ops)
    later_resps = list(resp_ops) if tier == "thorough" else ["returns", "panics", "applies_unmocked", "answers"]
    quants_mid = ["once", "n_times"]                   # then() needs an exact count
    checked = 0
    kinds_seen = set()
    try:
        with opaque_calls(eng, [r"^<F as MockFn>::info$"]):
            for start, ty0, mode in starts:
                for S_ in range(1, S + 1):
                    for resps in it.product(*([first_resps] + [later_resps] * (S_ - 1))):
                        last_quants = ["once", "n_times", None] + (["at_least_times"] if mode == ANY else [])
                        for quants in it.product(*([quants_mid] * (S_ - 1) + [last_quants])):
                            chain = list(zip(resps, quants))
                            ok = run_chain(eng, u, fn_by, new_b, start, ty0, mode, chain, resp_ops, RESP, (EX, AL, ALP), IN_ORDER)
                            checked += 1
                            kinds_seen.add((start, len(chain), quants[-1]))
            # C14: a return value that cannot be produced in this feature set is remembered in the builder (the assembler
            # turns it into a construction error): conversion fails for every `returns` chain start
            conv_mode["fail"] = True
            try:
                for start, ty0, mode in starts:
                    for quant in ("once", "n_times", None):
                        run_chain(eng, u, fn_by, new_b, start, ty0, mode, [("returns", quant)], resp_ops, RESP, (EX, AL, ALP), IN_ORDER, expect_conv_error=True)
                        checked += 1
            finally:
                conv_mode["fail"] = False
        u.witness(f"{checked} chain shapes executed", [z3.BoolVal(checked > 50)])
    finally:
        for it_ in hs:
            eng.handlers.remove(it_)
        eng.run_drop_impls.discard("QuantifyReturnValue")
    u.samples = checked
    return u.result()


def run_chain(eng, u, fn_by, new_b, start, ty0, mode, chain, resp_ops, RESP, EXS, IN_ORDER, expect_conv_error=False):
    EX, AL, ALP = EXS
    label = f"{start}:" + "->".join(f"{r}.{q or 'unquantified'}" for r, q in chain)
    # ---- build the initial typed builder object: DefineResponse / DefineMultipleResponses { wrapper: Owned(new(mode, matcher)), .. }
    m = eng.start(new_b, [Adt("PatternMatchMode", mode), Adt("DynInputMatcher", None)])
    paths = eng.explore(m)
    if len(paths) != 1 or paths[0].outcome[0] != "return":
        u.errors.append(f"{label}: DynCallPatternBuilder::new: {[p.outcome for p in paths][:2]}")
        return False
    m = paths[0]
    inner = m.outcome[1]
    wrapper = eng.mk_enum("DynBuilderWrapper", "Owned", inner)
    obj = Adt(ty0, None)
    obj.fields[(None, field_index(eng, ty0, "wrapper"))] = Cell(wrapper, None, "wrapper")
    obj.fields[(None, field_index(eng, ty0, "ordering"))] = Cell(Adt("O", None), None, "ordering")
    obj.fields[(None, field_index(eng, ty0, "mock_fn"))] = Cell(Adt("PhantomData", None), None, "mock_fn")
    cur_ty = ty0
    # ---- spec state
    n_syms = []
    idx = z3.BitVecVal(0, 64)
    minimum = z3.BitVecVal(0, 64)
    exact = AL
    exp_resp = []          # (index expr, kind, conversion or None)
    pend_return = False    # DefineResponse::returns stores the value until it is quantified
    noov = []

    def call(fn, args):
        nonlocal m
        m.outcome = None
        m.visits = {}
        eng.start(fn, args, m)
        ps = eng.explore(m)
        good = [p for p in ps if p.outcome[0] == "return"]
        pan = [p for p in ps if p.outcome[0] == "panic"]
        bad = [p for p in ps if p.outcome[0] in ("unknown", "bound")]
        for p in bad:
            u.errors.append(f"{label}: {fn.short}: {p.outcome}")
        for p in pan:
            # the only legitimate panic is arithmetic overflow of the running sums
            u.must_be_unsat(f"C02.builder-panics-only-on-overflow", list(p.pc) + noov, {"chain": label, "site": p.outcome[1]})
        if len(good) != 1:
            if not bad:
                u.must_be_true("C02.builder-step-is-deterministic", False, {"chain": label, "fn": fn.short, "returns": len(good)})
            return None
        m = good[0]
        return m.outcome[1]

    for si, (resp, quant) in enumerate(chain):
        kind = resp_ops[resp]
        # response op
        f = fn_by(resp, cur_ty)
        args = [obj]
        if resp == "returns":
            v = Adt("T", None)
            v.tag = ("value", si)
            args.append(v)
        elif resp in ("answers", "answers_arc", "panics"):
            args.append(Opaque("?", f"arg{si}"))
        obj = call(f, args)
        if obj is None:
            return False
        if resp == "returns" and cur_ty == "DefineResponse":
            cur_ty = "QuantifyReturnValue"
            pend_return = True
        else:
            cur_ty = "Quantify"
            exp_resp.append((idx, kind, {"returns": "into_return", "returns_default": "return_default"}.get(resp)))
        # quantifier
        if quant is not None:
            f = fn_by(quant, cur_ty)
            args = [obj]
            n = None
            if quant != "once":
                n = eng.named(f"n{si}", 64)
                args.append(Int(n, 64, False))
            else:
                n = z3.BitVecVal(1, 64)
            if pend_return:
                exp_resp.append((idx, "Return", "into_return_once" if quant == "once" else "into_return"))
                pend_return = False
            noov.append(z3.BVAddNoOverflow(minimum, n, False))
            noov.append(z3.BVAddNoOverflow(idx, n, False))
            minimum = minimum + n
            idx = idx + n
            exact = AL if quant == "at_least_times" else EX
            obj = call(f, args)
            if obj is None:
                return False
            cur_ty = "QuantifiedResponse"
            if si + 1 < len(chain):
                obj = call(fn_by("then", "QuantifiedResponse"), [obj])
                if obj is None:
                    return False
                cur_ty = "DefineMultipleResponses"
                exact = ALP
    # ---- deconstruct (what Unimock::new does with the clause)
    if cur_ty == "QuantifyReturnValue":
        exp_resp.append((idx, "Return", "into_return_once"))
        noov += [z3.BVAddNoOverflow(minimum, z3.BitVecVal(1, 64), False), z3.BVAddNoOverflow(idx, z3.BitVecVal(1, 64), False)]
        minimum, idx, exact = minimum + 1, idx + 1, EX
    elif cur_ty == "Quantify" and mode == IN_ORDER:
        noov += [z3.BVAddNoOverflow(minimum, z3.BitVecVal(1, 64), False), z3.BVAddNoOverflow(idx, z3.BitVecVal(1, 64), False)]
        minimum, idx, exact = minimum + 1, idx + 1, EX
    r = call(fn_by("deconstruct", cur_ty), [obj, Ref(Cell(Opaque("dyn Sink", "sink"), None, "sink"))])
    if r is None:
        return False
    pushed = m.user.get("pushed")
    u.must_be_true("C14.clause-pushes-exactly-one-pattern", pushed is not None and len([e for e in m.trace if e[0] == "sink_push"]) == 1, {"chain": label})
    if pushed is None:
        return False
    b = pushed.val
    ctx = {"chain": label}
    rerr = b.fields[(None, field_index(eng, "DynCallPatternBuilder", "responder_error"))].val
    if expect_conv_error:
        u.must_be_true("C14.unproducible-return-is-remembered-for-construction", isinstance(rerr, Adt) and rerr.discr == eng.variant_index("Option", "Some"), dict(ctx, responder_error=repr(rerr)[:80]))
        return True
    u.must_be_true("C14.no-spurious-responder-error", isinstance(rerr, Adt) and rerr.discr == eng.variant_index("Option", "None"), dict(ctx, responder_error=repr(rerr)[:80]))
    resp_v = b.fields[(None, field_index(eng, "DynCallPatternBuilder", "responders"))].val
    ce = b.fields[(None, field_index(eng, "DynCallPatternBuilder", "count_expectation"))].val
    got = []
    for c in resp_v.items:
        r_ = c.val
        ri = r_.fields[(None, field_index(eng, "DynCallOrderResponder", "response_index"))].val
        rr = r_.fields[(None, field_index(eng, "DynCallOrderResponder", "responder"))].val
        got.append((ri, rr))
    u.must_be_true("C02.one-responder-per-response", len(got) == len(exp_resp), {"chain": label, "got": len(got), "want": len(exp_resp)})
    for (ri, rr), (ei, ek, econv) in zip(got, exp_resp):
        u.must_hold("C02.segment-starts-at-sum-of-earlier-counts", m.pc, ri.e == ei, ctx)
        u.must_be_true("C02.response-kind-per-segment", isinstance(rr, Adt) and rr.discr == RESP[ek], {"chain": label, "got": repr(rr)[:60], "want": ek})
        if ek == "Return" and econv:
            # single-use vs repeatable storage (C12): follow Return(DynReturnResponder(Box<Returner(Box<tagged>)>))
            tagv = find_tag(rr)
            u.must_be_true("C12.single-use-vs-repeatable-conversion", tagv is not None and tagv[1] == econv, {"chain": label, "got": tagv, "want": econv})
    gmin = ce.fields[(None, field_index(eng, "CallCountExpectation", "minimum"))].val
    gex = ce.fields[(None, field_index(eng, "CallCountExpectation", "exactness"))].val
    u.must_hold("C03.expected-minimum-is-sum-of-counts", m.pc, gmin.e == minimum, ctx)
    u.must_be_true("C03.exactness-of-the-chain", isinstance(gex, Adt) and gex.discr == exact, {"chain": label, "got": getattr(gex, "discr", None), "want": exact})
    gmode = b.fields[(None, field_index(eng, "DynCallPatternBuilder", "pattern_match_mode"))].val
    u.must_be_true("C04.mode-of-the-clause-start", isinstance(gmode, Adt) and gmode.discr == mode, ctx)
    if mode == IN_ORDER:
        u.must_be_true("C04.ordered-clauses-are-exact", exact == EX, ctx)
    return True


def find_tag(v, depth=0):
    """Follow boxes / single-field wrappers to the tagged stored return."""
    if depth > 8:
        return None
    if isinstance(v, Adt):
        if v.tag and v.tag[0] in ("stored", "returner"):
            return v.tag
        for c in v.fields.values():
            t = find_tag(c.val, depth + 1)
            if t:
                return t
    if isinstance(v, Ref):
        return find_tag(v.cell.val, depth + 1)
    return None


def build_call_state(eng, K, mode_discr, nresp=2):
    """DynCtx over a method table with ONE mentioned method (key0) whose FnMocker has K fully built patterns:
    symbolic slot ranges, symbolic counters, a response chain of nresp (1 or 2) segments each (boundary n_k symbolic)."""
    i_cc = field_index(eng, "CallPattern", "call_counter")
    i_rg = field_index(eng, "CallPattern", "ordered_call_index_range")
    i_rs = field_index(eng, "CallPattern", "responders")
    i_ac = field_index(eng, "CallCounter", "actual_count")
    st = lazy_adt("SharedState", "state")
    fm = lazy_adt("FnMocker", "mocker0")
    pats = []
    for k in range(K):
        cp = lazy_adt("CallPattern", f"pat{k}")
        rg = Adt("Range", None)
        rg.fields[(None, 0)] = Cell(Int(eng.named(f"pat{k}.start", 64), 64, False), "usize", f"pat{k}.start")
        rg.fields[(None, 1)] = Cell(Int(eng.named(f"pat{k}.end", 64), 64, False), "usize", f"pat{k}.end")
        cp.fields[(None, i_rg)] = Cell(rg, None, f"pat{k}.range")
        rs = []
        for j, start in enumerate((z3.BitVecVal(0, 64), eng.named(f"pat{k}.n1", 64))[:nresp]):
            r = Adt("DynCallOrderResponder", None)
            r.fields[(None, field_index(eng, "DynCallOrderResponder", "response_index"))] = Cell(Int(start, 64, False), "usize", "ri")
            rr = Adt("DynResponder", None)
            rr.tag = ("responder", k, j)
            r.fields[(None, field_index(eng, "DynCallOrderResponder", "responder"))] = Cell(rr, None, f"pat{k}.resp{j}")
            rs.append(Cell(r, None, f"pat{k}.responders[{j}]"))
        cp.fields[(None, i_rs)] = Cell(VecVal(None, rs, "Vec"), None, f"pat{k}.responders")
        cc = lazy_adt("CallCounter", f"pat{k}.counter")
        at = Adt("Atomic", None)
        at.fields[("atomic", 0)] = Cell(Int(eng.named(f"pat{k}.count", 64), 64, False), "usize", f"pat{k}.count")
        cc.fields[(None, i_ac)] = Cell(at, None, f"pat{k}.actual_count")
        cp.fields[(None, i_cc)] = Cell(cc, None, f"pat{k}.call_counter")
        pats.append(Cell(cp, None, f"pat{k}"))
    fm.fields[(None, field_index(eng, "FnMocker", "call_patterns"))] = Cell(VecVal(None, pats, "Vec"), None, "mocker0.call_patterns")
    fm.fields[(None, field_index(eng, "FnMocker", "pattern_match_mode"))] = Cell(Adt("PatternMatchMode", mode_discr), None, "mocker0.mode")
    st.fields[(None, field_index(eng, "SharedState", "fn_mockers"))] = Cell(MapVal([(Cell(Int(eng.named("key0", 64), 64, False), None, "key0"), Cell(fm, "FnMocker", "mocker0"))]), None, "state.fn_mockers")
    g = Adt("Atomic", None)
    g.fields[("atomic", 0)] = Cell(Int(eng.named("g", 64), 64, False), "usize", "g")
    st.fields[(None, field_index(eng, "SharedState", "next_ordered_call_index"))] = Cell(g, None, "state.next_ordered_call_index")
    ctx = lazy_adt("DynCtx", "ctx")
    ctx.fields[(None, field_index(eng, "DynCtx", "shared_state"))] = Cell(Ref(Cell(st, None, "state")), None, "ctx.shared_state")
    info = lazy_adt("MockFnInfo", "info")
    info.fields[(None, field_index(eng, "MockFnInfo", "type_id"))] = Cell(Int(eng.named("key0", 64), 64, False), None, "type_id")   # the called method IS the mentioned one
    ctx.fields[(None, field_index(eng, "DynCtx", "info"))] = Cell(info, None, "ctx.info")
    return Ref(Cell(ctx, "DynCtx", "ctx"))


def unit_call_path(eng, tier, prop):
    """One call through eval_dyn with the scan, the ordered lookup and next_responder executed from their own MIR
    (C01 / C02 / C04, and the atomic step lists C10 builds on): which pattern is selected, which response, which counters move."""
    K = 3 if tier == "thorough" else 2
    u = Unit(eng, "call-path", ["DynCtx::eval_dyn", "DynCtx::match_call_pattern", "FnMocker::find_call_pattern_for_call_order", "CallPattern::next_responder",
                                "CallCounter::fetch_add", "SharedState::bump_ordered_call_index", "match_call_pattern::{closure#0..}", "find_call_pattern_for_call_order::{closure#0,1}"],
             f"one call from an arbitrary state: {K} patterns of the called method with arbitrary 64-bit slot ranges (increasing), arbitrary match counts, a 2-segment response chain each (arbitrary boundary); every matcher verdict in {{reject, accept, error}}; both modes; find_responder_by_call_index replaced by its contract (Kani unit c02_find_responder_by_call_index)")
    f = eng.find_fn(r"::eval_dyn$")
    IN_ORDER = eng.variant_index("PatternMatchMode", "InOrder")
    ANY = eng.variant_index("PatternMatchMode", "InAnyOrder")
    hs = []

    def add(rx, h):
        it_ = (re.compile(rx), h)
        eng.handlers.insert(0, it_)
        hs.append(it_)

    def h_find(call):
        v = eng.vec_of(call, call.argv[0])
        idx = call.argv[1]
        n1 = v.items[1].val.fields[(None, field_index(eng, "DynCallOrderResponder", "response_index"))].val
        k = eng.decide(call.m, ("find_resp", call.fr.bb), [z3.ULT(idx.e, n1.e), z3.UGE(idx.e, n1.e)])
        call.m.event("responder_lookup", str(z3.simplify(idx.e)))
        return eng.mk_enum("Option", "Some", Ref(v.items[k].val.fields[(None, field_index(eng, "DynCallOrderResponder", "responder"))]))
    add(r"^find_responder_by_call_index$|call_pattern::find_responder_by_call_index$", h_find)

    def cb(call, fobj, args):
        pat = args[0].cell.name if args and isinstance(args[0], Ref) else "?"
        rep = args[1] if len(args) > 1 else None
        diag = isinstance(rep, Adt) and rep.discr == eng.variant_index("Option", "Some")
        k = int(pat[3:]) if pat.startswith("pat") and pat[3:].isdigit() else -1
        v = eng.named(f"verdict{k}", 64)
        ch = eng.decide(call.m, ("verdict", call.fr.bb, k, len(call.m.trace)), [v == 0, v == 1, v == 2])
        call.m.event("matcher", k, diag)
        if ch == 2:
            return eng.mk_enum("Result", "Err", Adt("PatternError", eng.variant_index("PatternError", "Downcast")))
        return eng.mk_enum("Result", "Ok", Bool(z3.BoolVal(ch == 1)))
    eng.callback_hook = cb
    opaque = [r"^DynCtx::fn_call$", r"^FnMocker::debug_pattern$", r"^Mismatches::builder$", r"^MismatchesBuilder::(collect_from_reporter|build)$", r"^MismatchReporter::new_enabled$",
              r"^SharedState::find_ordered_expected_call_pattern_debug$", r"^DynCtx::map_pattern_error$"]
    try:
        with opaque_calls(eng, opaque):
            for mode in (ANY, IN_ORDER):
                ref = build_call_state(eng, K, mode)
                paths = u.explore(f, [ref, Ref(Cell(Opaque("dyn Fn", "match_inputs"), None, "match_inputs"))], note=f"[mode={mode}]")
                g = eng.named("g", 64)
                start = [eng.named(f"pat{k}.start", 64) for k in range(K)]
                end = [eng.named(f"pat{k}.end", 64) for k in range(K)]
                cnt = [eng.named(f"pat{k}.count", 64) for k in range(K)]
                n1 = [eng.named(f"pat{k}.n1", 64) for k in range(K)]
                ver = [eng.named(f"verdict{k}", 64) for k in range(K)]
                inv = [z3.ULE(start[k], end[k]) for k in range(K)] + [z3.ULE(end[k], start[k + 1]) for k in range(K - 1)]
                kinds = set()
                for p in paths:
                    if p.outcome[0] != "return":
                        if p.outcome[0] == "panic":
                            # counters wrap silently (fetch_add); no panic expected anywhere on the call path
                            u.must_be_true(f"C07.call-path-never-panics[mode={mode}]", False, {"site": p.outcome[1]})
                        continue
                    val = p.outcome[1]
                    root = p.user["_args"][0].val.cell.val
                    stv = root.fields[(None, field_index(eng, "DynCtx", "shared_state"))].val.cell.val
                    g_after = stv.fields[(None, field_index(eng, "SharedState", "next_ordered_call_index"))].val.fields[("atomic", 0)].val
                    fmv = stv.fields[(None, field_index(eng, "SharedState", "fn_mockers"))].val.entries[0][1].val
                    pv = fmv.fields[(None, field_index(eng, "FnMocker", "call_patterns"))].val.items
                    c_after = [pv[k].val.fields[(None, field_index(eng, "CallPattern", "call_counter"))].val.fields[(None, field_index(eng, "CallCounter", "actual_count"))].val.fields[("atomic", 0)].val for k in range(K)]
                    asked = [(e[1], e[2]) for e in events(p, "matcher")]
                    atoms = [(e[1], e[2]) for e in events(p, "atomic")]
                    is_ok = val.discr == eng.variant_index("Result", "Ok")
                    payload = val.fields[("Ok" if is_ok else "Err", 0)].val
                    sel = None
                    if is_ok and eng.enums["EvalResult"][payload.discr] == "Responder":
                        er = payload.fields[("Responder", 0)].val
                        dr = er.fields[(None, field_index(eng, "EvalResponder", "dyn_responder"))].val
                        tag = dr.cell.val.tag if isinstance(dr, Ref) and isinstance(dr.cell.val, Adt) else None
                        sel = tag[1] if tag else None
                        seg = tag[2] if tag else None
                        pidx = er.fields[(None, field_index(eng, "EvalResponder", "pat_index"))].val.fields[(None, 0)].val
                        u.must_hold(f"C19.reported-pattern-index-is-the-selected-one[mode={mode}]", list(p.pc) + inv, pidx.e == sel, {"sel": sel})
                    ctx = {"mode": "ordered" if mode == IN_ORDER else "unordered", "selected": sel, "asked": asked}
                    for k in range(K):
                        bump = z3.BitVecVal(1 if k == sel else 0, 64)
                        u.must_hold(f"C01.only-the-selected-pattern-is-counted[mode={mode}]", list(p.pc) + inv, c_after[k].e == cnt[k] + bump, ctx)
                    if sel is not None:
                        # C02: the response is chosen by the pattern's OWN previous match count (never by the global index)
                        u.must_hold(f"C02.response-by-own-match-count[mode={mode}]", list(p.pc) + inv, z3.If(z3.ULT(cnt[sel], n1[sel]), seg == 0, seg == 1) if isinstance(seg, int) else z3.BoolVal(False), ctx)
                    if mode == ANY:
                        kinds.add("u:" + ("sel" if sel is not None else ("ok" if is_ok else "err")))
                        u.must_hold(f"C04.unordered-call-never-consumes-a-slot", list(p.pc), g_after.e == g, ctx)
                        first = z3.BitVecVal(K, 64)
                        for k in reversed(range(K)):
                            first = z3.If(ver[k] != 0, z3.BitVecVal(k, 64), first)
                        if sel is not None:
                            u.must_hold("C01.first-declared-accepting-pattern-answers", list(p.pc), z3.And(first == sel, ver[sel] == 1), ctx)
                        # matchers run with diagnostics off during the scan, in declaration order, stopping at the first non-reject
                        scan = [a for a in asked if not a[1]]
                        u.must_be_true("C01.scan-in-declaration-order", [a[0] for a in scan] == list(range(len(scan))), ctx)
                        if sel is None and is_ok:
                            u.must_be_true("C07.unordered-unmatched-falls-through", eng.enums["EvalResult"][payload.discr] == "Unmock")
                            u.must_hold("C07.unmatched-only-if-all-reject", list(p.pc), first == K, ctx)
                        u.must_be_true("C10.unordered-step-list", atoms == ([("fetch_add", f"pat{sel}.count")] if sel is not None else []), {"atoms": atoms})
                    else:
                        kinds.add("o:" + ("sel" if sel is not None else "err"))
                        u.must_hold("C04.ordered-call-always-advances-the-global-index", list(p.pc), g_after.e == g + 1, ctx)
                        owner = z3.BitVecVal(K, 64)
                        for k in reversed(range(K)):
                            owner = z3.If(z3.And(z3.ULE(start[k], g), z3.ULT(g, end[k])), z3.BitVecVal(k, 64), owner)
                        if sel is not None:
                            u.must_hold("C04.slot-owner-answers-iff-it-accepts", list(p.pc) + inv, z3.And(owner == sel, ver[sel] == 1), ctx)
                            u.must_be_true("C04.only-the-owner-is-consulted-with-diagnostics", asked == [(sel, True)], ctx)
                        else:
                            u.must_be_true("C04.deviating-ordered-call-is-an-error", not is_ok, ctx)
                            ek = eng.enums["MockError"][payload.discr] if isinstance(payload, Adt) and isinstance(payload.discr, int) else "mapped"
                            if ek == "CallOrderNotMatchedForMockFn":
                                u.must_hold("C04.wrong-method-or-past-the-end", list(p.pc) + inv, owner == K, ctx)
                                u.must_be_true("C04.no-matcher-consulted-for-a-foreign-slot", asked == [], ctx)
                            elif ek == "InputsNotMatchedInCallOrder":
                                k0 = asked[0][0] if asked else None
                                u.must_hold("C04.owner-rejected-the-arguments", list(p.pc) + inv, z3.And(owner == k0, ver[k0] == 0) if k0 is not None else z3.BoolVal(False), ctx)
                        exp_atoms = [("fetch_add", "g")] + ([("fetch_add", f"pat{sel}.count")] if sel is not None else [])
                        u.must_be_true("C10.ordered-step-list", atoms == exp_atoms, {"atoms": atoms})
                        if atoms:
                            u.must_be_true("C04.index-claimed-before-anything-else", p.trace.index(("atomic",) + atoms[0]) < min([i for i, e in enumerate(p.trace) if e[0] == "matcher"] + [10 ** 6]), ctx)
                dom = [z3.ULE(v, 2) for v in ver] + [z3.ULE(eng.named("state.%d.discr" % field_index(eng, "SharedState", "fallback_mode"), 64), 1)]
                u.must_be_unsat(f"call-path.covers-all-inputs[mode={mode}]", dom + inv + [z3.Not(z3.Or([z3.And(p.pc) if p.pc else z3.BoolVal(True) for p in paths if p.outcome[0] == "return"]))])
                need = {"u:sel", "u:ok", "u:err"} if mode == ANY else {"o:sel", "o:err"}
                u.witness(f"outcome kinds[mode={mode}] missing={sorted(need - kinds)}", [z3.BoolVal(need <= kinds)])
    finally:
        for it_ in hs:
            eng.handlers.remove(it_)
        eng.callback_hook = None
    return u.result()


# ------------------------------------------------------------------------------------------- C10: interleavings
def extract_step_program(eng, u, mode, label, nresp=2):
    """Run one ACCEPTED call through eval_dyn (everything from MIR) in atomic-trace mode and return its step program:
    [(op, cell, rd_var, operand exprs)], the expression used as response index ('position') and, for ordered calls,
    the expression used as slot index."""
    f = eng.find_fn(r"::eval_dyn$")
    hs = []
    out = {}

    def h_find(call):
        idx = call.argv[1]
        call.m.event("position", idx.e)
        v = eng.vec_of(call, call.argv[0])
        return eng.mk_enum("Option", "Some", Ref(v.items[0].val.fields[(None, field_index(eng, "DynCallOrderResponder", "responder"))]))

    def h_owner(call):
        # the slot owner lookup is pure (immutable configuration): the call is for the pattern that owns the slot
        call.m.event("slot", call.argv[1].e)
        fmv = call.deref(call.argv[0], "adt")
        pats = fmv.fields[(None, field_index(eng, "FnMocker", "call_patterns"))].val
        t = Adt("(tuple)", None)
        pi = Adt("PatIndex", None)
        pi.fields[(None, 0)] = Cell(bv(0), None, "pi")
        t.fields[(None, 0)] = Cell(pi, None, "t0")
        t.fields[(None, 1)] = Cell(Ref(pats.items[0]), None, "t1")
        return eng.mk_enum("Option", "Some", t)
    for rx, h in ((r"find_responder_by_call_index$", h_find), (r"^FnMocker::find_call_pattern_for_call_order$", h_owner)):
        it_ = (re.compile(rx), h)
        eng.handlers.insert(0, it_)
        hs.append(it_)

    def cb(call, fobj, args):
        return eng.mk_enum("Result", "Ok", Bool(z3.BoolVal(True)))      # the matcher accepts
    eng.callback_hook = cb
    eng.atomic_trace = True
    try:
        with opaque_calls(eng, [r"^DynCtx::fn_call$", r"^FnMocker::debug_pattern$", r"^MismatchReporter::new_enabled$", r"^Mismatches::builder$", r"^MismatchesBuilder::"]):
            ref = build_call_state(eng, 1, mode, nresp)
            paths = u.explore(f, [ref, Ref(Cell(Opaque("dyn Fn", "match_inputs"), None, "match_inputs"))], note=f"[{label}]")
    finally:
        eng.atomic_trace = False
        eng.callback_hook = None
        for it_ in hs:
            eng.handlers.remove(it_)
    progs = []
    for p in paths:
        if p.outcome[0] != "return":
            continue
        steps = [e[1:] for e in p.trace if e[0] == "atomic"]
        pos = [e[1] for e in p.trace if e[0] == "position"]
        slot = [e[1] for e in p.trace if e[0] == "slot"]
        cas = {e[1]: e[2] for e in p.trace if e[0] == "cas_result"}
        steps = [(op, cell, z3.BitVec(str(rd), SCHED_W), tuple(narrow(x, SCHED_W) for x in exprs)) for (op, cell, rd, exprs) in steps]
        progs.append({"counted": any(str(c).endswith(".count") and op != "load" for (op, c, _r, _e) in steps), "steps": steps, "pos": narrow(pos[0], SCHED_W) if pos else None, "slot": narrow(slot[0], SCHED_W) if slot else None, "pc": list(p.pc), "cas": cas})
    return progs


def narrow(e, w):
    """Rebuild a 64-bit bit-vector term at width w (constants: all-ones stays all-ones, others are truncated); only the
    operators that occur in counter arithmetic are accepted."""
    if z3.is_bv_value(e):
        v = e.as_long()
        return z3.BitVecVal((2 ** w - 1) if v == 2 ** e.size() - 1 else v % (2 ** w), w)
    if z3.is_const(e) and z3.is_bv(e):
        return z3.BitVec(str(e), w)
    if z3.is_true(e) or z3.is_false(e):
        return e
    k = e.decl().kind()
    ch = [narrow(c, w) for c in e.children()]
    tbl = {z3.Z3_OP_BADD: lambda a: sum(a[1:], a[0]), z3.Z3_OP_BSUB: lambda a: a[0] - a[1], z3.Z3_OP_ITE: lambda a: z3.If(a[0], a[1], a[2]),
           z3.Z3_OP_EQ: lambda a: a[0] == a[1], z3.Z3_OP_NOT: lambda a: z3.Not(a[0]), z3.Z3_OP_AND: lambda a: z3.And(a), z3.Z3_OP_OR: lambda a: z3.Or(a),
           z3.Z3_OP_ULEQ: lambda a: z3.ULE(a[0], a[1]), z3.Z3_OP_ULT: lambda a: z3.ULT(a[0], a[1]), z3.Z3_OP_UGEQ: lambda a: z3.UGE(a[0], a[1]), z3.Z3_OP_UGT: lambda a: z3.UGT(a[0], a[1]),
           z3.Z3_OP_DISTINCT: lambda a: z3.Distinct(a)}
    if k == z3.Z3_OP_BADD and False:
        pass
    if k in tbl:
        return tbl[k](ch)
    # overflow predicates produced by BVAddNoOverflow are (extract/concat) forms: rebuild from the pattern is not attempted
    raise Unsupported(f"cannot narrow operator {e.decl().name()} in a step program")


SCHED_W = 16


def schedule_model(eng, progs_per_thread, cells, init):
    """Bounded interleaving model: slot t runs the next step of thread sched[t]. Returns (constraints, results) where
    results[i][j] = dict(pos=expr, slot=expr) of call j of thread i; final cell values in `final`."""
    T = len(progs_per_thread)
    flat = []   # per thread: flat list of (call index, step)
    for i, calls in enumerate(progs_per_thread):
        fl = []
        for j, pr in enumerate(calls):
            for st in pr["steps"]:
                fl.append((j, st))
        flat.append(fl)
    N = sum(len(fl) for fl in flat)
    # pure bit-vector encoding (thread ids and program counters are small words): the query bit-blasts to SAT
    sched = [z3.BitVec(f"sched{t}", 3) for t in range(N)]
    cons = [z3.ULT(s_, T) for s_ in sched]
    mem = {c: init[c] for c in cells}
    pcs = [z3.BitVecVal(0, 6) for _ in range(T)]
    regs = {}    # (thread, call, rd var name) -> z3 expr of the value read
    for t in range(N):
        new_mem = dict(mem)
        for i in range(T):
            for k, (j, st) in enumerate(flat[i]):
                op, cell, rd, exprs = st
                act = z3.And(sched[t] == i, pcs[i] == k)
                # operand expressions refer to this call's registers: substitute
                def sub(e, i=i, j=j):
                    pairs = [(z3.BitVec(str(name), SCHED_W), val) for (ti, tj, name), val in regs.items() if ti == i and tj == j]
                    return z3.substitute(e, *pairs) if pairs else e
                cur = mem[cell]
                key = (i, j, str(rd))
                prev = regs.get(key)
                regs[key] = z3.If(act, cur, prev) if prev is not None else z3.If(act, cur, z3.BitVecVal(0, SCHED_W))
                if op == "fetch_add":
                    new_mem[cell] = z3.If(act, cur + sub(exprs[0]), new_mem[cell])
                elif op == "fetch_sub":
                    new_mem[cell] = z3.If(act, cur - sub(exprs[0]), new_mem[cell])
                elif op in ("store", "swap"):
                    new_mem[cell] = z3.If(act, sub(exprs[0]), new_mem[cell])
                elif op == "cas":
                    new_mem[cell] = z3.If(z3.And(act, cur == sub(exprs[0])), sub(exprs[1]), new_mem[cell])
                elif op == "load":
                    pass
                else:
                    raise Unsupported("atomic op in schedule model: " + op)
        pcs = [z3.If(sched[t] == i, pcs[i] + 1, pcs[i]) for i in range(T)]
        mem = new_mem
    cons += [pcs[i] == z3.BitVecVal(len(flat[i]), 6) for i in range(T)]
    results = []
    for i, calls in enumerate(progs_per_thread):
        row = []
        for j, pr in enumerate(calls):
            pairs = [(z3.BitVec(str(name), SCHED_W), val) for (ti, tj, name), val in regs.items() if ti == i and tj == j]
            row.append({k: (z3.substitute(pr[k], *pairs) if pr[k] is not None and pairs else pr[k]) for k in ("pos", "slot")})
        results.append(row)
    return cons, results, mem, N


def unit_schedules(eng, tier, prop):
    """C10: step programs of an accepted unordered / ordered call are extracted from the MIR; z3 then decides, for a SYMBOLIC
    schedule of T threads x C calls, that positions are pairwise distinct, form a contiguous block and no increment is lost."""
    configs = [(2, 2), (3, 1), (3, 2)] if tier == "quick" else [(2, 2), (2, 3), (3, 2), (4, 2), (3, 3)]
    u = Unit(eng, "schedules", ["DynCtx::eval_dyn (atomic step extraction)", "CallCounter::fetch_add", "SharedState::bump_ordered_call_index", "Owning::into_return_once::{closure}"],
             f"all sequentially consistent interleavings (symbolic schedule, one order decision per atomic step) of (threads x calls) in {configs} on one shared pattern whose response chain has two segments, and again with a single responder (T*C<=4 in the quick tier); step programs and operand expressions are extracted from the 64-bit MIR; in the interleaving model counters are 16-bit wrapping words with arbitrary initial values")
    ANY = eng.variant_index("PatternMatchMode", "InAnyOrder")
    IN_ORDER = eng.variant_index("PatternMatchMode", "InOrder")
    for mode, label, nresp in ((ANY, "unordered", 2), (IN_ORDER, "ordered", 2), (ANY, "unordered-single-responder", 1), (IN_ORDER, "ordered-single-responder", 1)):
        # single-responder patterns are explored separately: a fast path that skips the segment search would only exist there
        progs = extract_step_program(eng, u, mode, label, nresp)
        accepted = [p for p in progs if p["pos"] is not None or p["counted"]]
        u.must_be_true(f"C10.{label}-accepted-call-has-one-step-program", len(accepted) >= 1, {"programs": len(progs)})
        if not accepted:
            continue
        # a call whose control flow depends on a CAS result has several programs (retry / give up): all are modelled
        for pr in accepted:
            ops = [(s[0], s[1]) for s in pr["steps"]]
            u.samples.append({"call": label, "steps": ops})
        # every write to shared state on the call path is one of the recorded atomic steps (no plain field write through &SharedState):
        # guaranteed by construction of the executor: a write through a shared reference is a MIR assignment `(*_n).f = ..` on a `&` (not `&mut`) path
        pr0 = accepted[0]
        cells = sorted({s[1] for pr in accepted for s in pr["steps"]})
        for (T, C) in configs:
            if tier == "quick" and (label.startswith("ordered") or nresp == 1) and T * C > 4:
                continue        # ordered calls have two steps each: 3x2 is left to the thorough tier (so are the single-responder variants)
            if label.startswith("ordered") and T * C > 6:
                continue        # measured: the ordered 4x2 / 3x3 queries (16 / 18 atomic steps) do not finish in 1500 s: outside the bound
            init = {c: z3.BitVec(f"init.{c}", SCHED_W) for c in cells}
            import itertools as it_
            variants = accepted if len(accepted) > 1 else [pr0]
            # each call may follow any of the extracted programs (e.g. CAS success / failure paths)
            combos = list(it_.product(range(len(variants)), repeat=T * C)) if len(variants) > 1 and T * C <= 4 else [tuple([0] * (T * C))]
            if len(variants) > 1 and T * C > 4:
                combos = [tuple([v] * (T * C)) for v in range(len(variants))]
            for combo in combos:
                ppt = [[variants[combo[i * C + j]] for j in range(C)] for i in range(T)]
                cons, res, final, N = schedule_model(eng, ppt, cells, init)
                # path conditions of each program instance (e.g. "the CAS succeeded") restrict which schedules are consistent;
                # a CAS outcome flag must agree with the memory state it saw: encoded as an extra consistency constraint
                allr = [r for row in res for r in row]
                positions = [r["pos"] for r in allr if r["pos"] is not None]      # a call path without segment search has no position
                ncalls = T * C
                pcell = [c for c in cells if c.endswith(".count")][0]
                qn = f"[{label} T={T} C={C} v={combo if len(variants) > 1 else 0}]"
                u.witness(f"a schedule exists{qn}", cons, logic="QF_BV")
                if len(positions) > 1:
                    u.defer_unsat(f"C10.positions-pairwise-distinct{qn}", cons + [z3.Not(z3.Distinct(positions))], {"T": T, "C": C, "call": label})
                    u.defer_unsat(f"C10.positions-form-a-contiguous-block{qn}", cons + [z3.Not(z3.And([z3.ULT(p_ - init[pcell], ncalls) for p_ in positions]))], {"T": T, "C": C, "call": label})
                u.defer_unsat(f"C10.no-increment-lost{qn}", cons + [final[pcell] != init[pcell] + ncalls], {"T": T, "C": C, "call": label})
                if label.startswith("ordered"):
                    slots = [r["slot"] for r in allr]
                    gcell = [c for c in cells if c == "g"][0]
                    u.defer_unsat(f"C10.slots-pairwise-distinct{qn}", cons + [z3.Not(z3.Distinct(slots))], {"T": T, "C": C, "call": label})
                    u.defer_unsat(f"C10.slots-consecutive{qn}", cons + [z3.Not(z3.And([z3.ULT(s_ - init[gcell], ncalls) for s_ in slots]))], {"T": T, "C": C, "call": label})
                    u.defer_unsat(f"C10.global-index-advances-by-the-number-of-calls{qn}", cons + [final[gcell] != init[gcell] + ncalls], {"T": T, "C": C, "call": label})
                # program order within a thread: a thread's later call gets a later position
                for i in range(T):
                    for j in range(C - 1):
                        if res[i][j]["pos"] is None or res[i][j + 1]["pos"] is None:
                            continue
                        u.defer_unsat(f"C10.per-thread-order{qn}", cons + [z3.Not(z3.ULT(res[i][j]["pos"] - init[pcell], res[i][j + 1]["pos"] - init[pcell]))])
    u.flush(timeout_s=240 if tier == "quick" else 900, cross=("cvc5", "--lang", "smt2") if tier == "thorough" else None)
    # single-use value: the take() is inside the locked block
    clos = [f for f in eng.fns if f.raw_name.endswith("into_return_once::{closure#0}") and f.module.startswith("owning::")]
    u.must_be_true("C12.single-use-closure-found", len(clos) == 1)
    if clos:
        cal = [c for c, _ in all_callees(eng, clos[0])]
        u.must_be_true("C12.take-only-under-the-lock", len(cal) == 1 and "MutexIsh" in cal[0] and "locked" in cal[0], {"callees": cal})
        inner = [f for f in eng.fns if f.raw_name.endswith("into_return_once::{closure#0}::{closure#0}") and f.module.startswith("owning::")]
        cal2 = [c for f in inner for c, _ in all_callees(eng, f)]
        u.must_be_true("C12.locked-block-is-exactly-one-take", len(cal2) == 1 and cal2[0].startswith("Option::<") and cal2[0].endswith("::take"), {"callees": cal2})
        # the repeatable path: the stored original is only READ (cloned) per request - never taken out, swapped or locked away
        rep = [f for f in eng.fns if re.search(r"into_return::\{closure#0\}", f.raw_name) and f.module.startswith("owning::")]
        u.must_be_true("C12.repeatable-closure-found", len(rep) >= 1, {"n": len(rep)})
        for f in rep:
            sub = [g for g in eng.fns if g.raw_name.startswith(f.raw_name + "::")]
            cal3 = [c for g in [f] + sub for c, _ in all_callees(eng, g)]
            bad3 = [c for c in cal3 if not re.search(r"as Clone>::clone$|^Option::<.*>::Some$|^<.* as Deref>::deref$", c)]
            u.must_be_true("C12.repeatable-value-is-only-cloned-never-moved-out", not bad3 and any(c.endswith("as Clone>::clone") for c in cal3), {"callees": cal3[:6]})
        # schedule model of R racing requests on one atomic take: exactly min(1, R) deliveries
        for R in (2, 3, 4):
            order = [z3.Int(f"req{i}") for i in range(R)]
            cons = [z3.Distinct(order)] + [z3.And(o >= 0, o < R) for o in order]
            got = [z3.And([order[i] < order[j] for j in range(R) if j != i]) for i in range(R)]    # served iff it runs first
            u.must_be_unsat(f"C12.exactly-one-racing-request-served[R={R}]", cons + [z3.Not(z3.PbEq([(g_, 1) for g_ in got], 1))])
    return u.result()


def unit_delegators(eng, tier, prop):
    """C15 / C09: DelegateToDefaultImpl for the receiver kinds: the by-value helper IS the caller's instance (moved in and
    moved back out, never cloned: an extra clone would be alive when the original is dropped); Rc/Arc helpers are clones
    that share the Arc'd state; the lazily created helper of &self / &mut self is a clone of self."""
    u = Unit(eng, "delegators", ["<Unimock as DelegateToDefaultImpl>::{to_delegator,from_delegator}", "<Rc<Unimock> ..>", "<Arc<Unimock> ..>", "<Unimock as AsRef<DefaultImplDelegator>>::as_ref", "<Unimock as Clone>::clone"],
             "arbitrary instance state; data-flow identity of the instance / shared state through the helper")
    fns = [f for f in eng.fns if f.module.startswith("default_impl_delegator::") and f.short in ("to_delegator", "from_delegator")]
    by = {}
    for f in fns:
        key = (f.short, f.params[0][1])
        by[key] = f
    clone_rx = re.compile(r"^<Unimock as Clone>::clone$")
    hs = []

    def h_clone(call):
        src = call.deref(call.argv[0], "adt")
        call.m.event("unimock_clone", src.lazy.name if isinstance(src, Adt) and src.lazy else "?")
        c = lazy_adt("Unimock", "clone_of_" + (src.lazy.name if isinstance(src, Adt) and src.lazy else "x"))
        return c
    eng.handlers.insert(0, (clone_rx, h_clone))
    try:
        # by value
        td = by.get(("to_delegator", "Unimock"))
        fd = by.get(("from_delegator", "default_impl_delegator::DefaultImplDelegator"))
        u.must_be_true("C15.by-value-delegator-impl-found", td is not None and fd is not None, {"have": sorted(map(str, by))})
        if td and fd:
            inst = lazy_adt("Unimock", "the_instance")
            paths = u.explore(td, [inst])
            for p in paths:
                if p.outcome[0] != "return":
                    continue
                d = p.outcome[1]
                inner = [c.val for c in d.fields.values()]
                same = len(inner) == 1 and isinstance(inner[0], Adt) and inner[0].lazy is not None and inner[0].lazy.name == "the_instance"
                u.must_be_true("C15.by-value-helper-wraps-the-callers-instance", same and not events(p, "unimock_clone"), {"clones": events(p, "unimock_clone")})
                written = sorted(k[1] for k, c in inner[0].fields.items() if not isinstance(c.val, Opaque)) if same else []
                u.must_be_true("C09.wrapping-does-not-alter-the-instance", written == [], {"fields_written": written})
                paths2 = u.explore(fd, [d])
                for q in paths2:
                    if q.outcome[0] != "return":
                        continue
                    r = q.outcome[1]
                    u.must_be_true("C15.by-value-instance-moved-back-out-not-cloned",
                                   isinstance(r, Adt) and r.lazy is not None and r.lazy.name == "the_instance" and not events(q, "unimock_clone"),
                                   {"returned": getattr(getattr(r, "lazy", None), "name", repr(r)[:40]), "clones": events(q, "unimock_clone")})
            u.witness("by-value impl explored", [z3.BoolVal(bool(paths))])
        # &self / &mut self: the helper is created lazily, ONCE per instance: an existing helper (which owns the values lent
        # through it, C13) is reused, never replaced; a fresh one wraps a clone of this instance
        i_cell = field_index(eng, "Unimock", "default_impl_delegator_cell")
        for acc, trait in (("as_ref", "AsRef"), ("as_mut", "AsMut")):
            fs = [g for g in eng.fns if g.short == acc and g.params and g.params[0][1].replace(" ", "") in ("&Unimock", "&mutUnimock") and "DefaultImplDelegator" in (g.ret or "")]
            u.must_be_true(f"C15.{acc}-helper-accessor-found", len(fs) == 1, {"n": len(fs)})
            if len(fs) != 1:
                continue
            inst = lazy_adt("Unimock", "the_instance")
            helper = Adt("DefaultImplDelegator", None)
            helper.tag = ("existing_helper",)
            opt = lazy_adt("Option", "helper_cell")
            opt.fields[("Some", 0)] = Cell(Ref(Cell(helper, None, "existing_helper"), "box"), None, "boxed_helper")
            oc = Adt("OnceCell", None)
            oc.fields[("cell", 0)] = Cell(opt, None, "once")
            inst.fields[(None, i_cell)] = Cell(oc, None, "default_impl_delegator_cell")
            init = eng.named("helper_cell.discr", 64)
            mach = eng.start(fs[0], [Ref(Cell(inst, None, "self"))])
            mach.pc.append(z3.ULE(init, 1))
            paths = eng.explore(mach)
            u.paths += len(paths)
            seen = set()
            for p in paths:
                if p.outcome[0] in ("unknown", "bound"):
                    u.errors.append(f"{acc}: {p.outcome[0]}: {p.outcome[1]}")
                    continue
                if eng.check(p.pc) != z3.sat:
                    continue
                u.must_be_true(f"C15.{acc}-never-panics", p.outcome[0] == "return", {"outcome": repr(p.outcome)[:160]})
                if p.outcome[0] != "return":
                    continue
                r = p.outcome[1]
                tgt = r
                hops = 0
                while isinstance(tgt, Ref) and hops < 4:
                    tgt = tgt.cell.val
                    hops += 1
                clones = events(p, "unimock_clone")
                for had in (True, False):
                    if eng.check(list(p.pc) + [init == (1 if had else 0)]) != z3.sat:
                        continue
                    seen.add(had)
                    if had:
                        u.must_be_true(f"C13.{acc}-reuses-the-existing-helper", isinstance(tgt, Adt) and tgt.tag == ("existing_helper",) and not clones and not events(p, "oncecell_new_with_value"),
                                       {"returned": repr(tgt)[:80], "clones": clones})
                    else:
                        inner = [c.val for c in tgt.fields.values()] if isinstance(tgt, Adt) else []
                        wraps = len(inner) == 1 and isinstance(inner[0], Adt) and inner[0].lazy is not None and inner[0].lazy.name == "clone_of_the_instance"
                        u.must_be_true(f"C15.{acc}-fresh-helper-wraps-one-clone-of-this-instance", wraps and clones == [("unimock_clone", "the_instance")], {"returned": repr(tgt)[:80], "clones": clones})
            u.must_be_true(f"C15.{acc}-explored-with-and-without-an-existing-helper", seen == {True, False}, {"seen": sorted(seen)})
        # Pin<&mut Self>: the helper lives in the same cell; creating / finding it leaves the instance's own lent values alone
        pf = next((v for k, v in by.items() if k[0] == "to_delegator" and k[1].replace(" ", "").startswith("Pin<&")), None)
        u.must_be_true("C15.Pin-delegator-impl-found", pf is not None)
        if pf is not None:
            i_vc = field_index(eng, "Unimock", "value_chain")
            for filled in (False, True):
                inst = lazy_adt("Unimock", "the_instance")
                helper = Adt("DefaultImplDelegator", None)
                helper.tag = ("existing_helper",)
                opt = eng.mk_enum("Option", "Some", Ref(Cell(helper, None, "existing_helper"), "box")) if filled else eng.mk_enum("Option", "None")
                oc = Adt("OnceCell", None)
                oc.fields[("cell", 0)] = Cell(opt, None, "once")
                inst.fields[(None, i_cell)] = Cell(oc, None, "default_impl_delegator_cell")
                vc = Adt("ValueChain", None)
                vc.tag = ("the_value_chain",)
                inst.fields[(None, i_vc)] = Cell(vc, None, "value_chain")
                pin = Adt("Pin", None)
                pin.fields[(None, 0)] = Cell(Ref(Cell(inst, None, "self")), None, "pointer")
                paths = u.explore(pf, [pin], note=f"[Pin to_delegator, helper {'present' if filled else 'absent'}]")
                for p in paths:
                    if p.outcome[0] != "return":
                        if p.outcome[0] == "panic":
                            u.must_be_true("C15.Pin-to_delegator-never-panics", False, {"site": p.outcome[1]})
                        continue
                    now = inst.fields[(None, i_vc)].val
                    frame_inst = None
                    # the explored machine works on a copy: find the instance through the returned helper's cell is not possible;
                    # use the events instead: nothing may take / replace / drop the instance's value chain
                    touched = [e for e in p.trace if (e[0] == "drop" and "ValueChain" in str(e[3])) or (e[0] in ("mem_take", "mem_replace", "mem_swap") and "value_chain" in str(e))]
                    u.must_be_true("C13.Pin-delegation-leaves-the-instances-lent-values-alone", not touched, {"events": [e[:4] for e in touched][:3], "helper_present": filled})
                    if filled:
                        r = p.outcome[1]
                        tgt = r
                        hops = 0
                        while isinstance(tgt, (Ref,)) or (isinstance(tgt, Adt) and tgt.ty == "Pin"):
                            tgt = tgt.cell.val if isinstance(tgt, Ref) else next(iter(tgt.fields.values())).val
                            hops += 1
                            if hops > 6:
                                break
                        u.must_be_true("C13.Pin-delegation-reuses-the-existing-helper", isinstance(tgt, Adt) and tgt.tag == ("existing_helper",), {"returned": repr(tgt)[:80]})
        # Rc / Arc receivers: the helper is a clone sharing the state, or - when the receiver is the last Rc - takes over the
        # instance itself. The caller's instance must not be RELEASED before the default body has run: dropping the last
        # Rc<Unimock> while only a clone lives in the helper tears the original down with a clone alive (C09 makes that a
        # panic), so the default body would never run (C15).
        strong = eng.named("rc.strong_count", 64)
        rc_ty = re.compile(r"^(alloc::)?(rc::|sync::)?(Rc|Arc)<((\w+::)*)Unimock>$")
        rcd_ty = re.compile(r"^(alloc::)?(rc::|sync::)?(Rc|Arc)<((\w+::)*)DefaultImplDelegator>$")

        def mk_rc(kind, pointee, tag):
            a = Adt(kind, None)
            a.tag = (tag,)
            a.fields[(None, 0)] = Cell(pointee, None, tag + ".pointee")
            return a

        def rc_of(call, v):
            hops = 0
            while isinstance(v, Ref) and hops < 3:
                v = v.cell.val
                hops += 1
            if not (isinstance(v, Adt) and v.ty in ("Rc", "Arc")):
                raise Unsupported(f"Rc operation on {v!r}")
            return v

        def h_rc_deref(call):
            return Ref(rc_of(call, call.argv[0]).fields[(None, 0)])

        def h_rc_new(call):
            return mk_rc("Arc" if "Arc" in call.norm else "Rc", call.argv[0], "new_rc")

        def h_try_unwrap(call):
            rc = rc_of(call, call.argv[0])
            k = eng.decide(call.m, ("try_unwrap", call.fr.bb), [strong == 1, strong != 1])
            call.m.event("rc_try_unwrap", k == 0)
            if k == 0:
                return eng.mk_enum("Result", "Ok", rc.fields[(None, 0)].val)
            return eng.mk_enum("Result", "Err", rc)

        def h_into_inner(call):
            rc = rc_of(call, call.argv[0])
            k = eng.decide(call.m, ("into_inner", call.fr.bb), [strong == 1, strong != 1])
            call.m.event("rc_try_unwrap", k == 0)
            if k == 0:
                return eng.mk_enum("Option", "Some", rc.fields[(None, 0)].val)
            return eng.mk_enum("Option", "None")
        rch = [(re.compile(r"^<(Rc|Arc) as Deref>::deref$"), h_rc_deref), (re.compile(r"^(Rc|Arc)::new$"), h_rc_new),
               (re.compile(r"^(Rc|Arc)::try_unwrap$"), h_try_unwrap), (re.compile(r"^(Rc|Arc)::into_inner$"), h_into_inner)]
        for h in rch:
            eng.handlers.insert(0, h)
        try:
            for kind in ("Rc", "Arc"):
                f = next((v for k, v in by.items() if k[0] == "to_delegator" and k[1].startswith(kind + "<")), None)
                g = next((v for k, v in by.items() if k[0] == "from_delegator" and k[1].startswith(kind + "<")), None)
                u.must_be_true(f"C15.{kind}-delegator-impl-found", f is not None and g is not None)
                if f is None or g is None:
                    continue
                may_hold_original = False
                mach = eng.start(f, [mk_rc(kind, lazy_adt("Unimock", "the_instance"), "rc_self")])
                mach.pc.append(z3.UGE(strong, 1))
                paths = eng.explore(mach)
                u.paths += len(paths)
                for p in paths:
                    if p.outcome[0] in ("unknown", "bound"):
                        u.errors.append(f"{kind} to_delegator: {p.outcome[0]}: {p.outcome[1]}")
                        continue
                    if p.outcome[0] != "return" or eng.check(p.pc) != z3.sat:
                        continue
                    r = p.outcome[1]
                    helper = r.fields[(None, 0)].val if isinstance(r, Adt) and r.ty in ("Rc", "Arc") else None
                    inner = [c.val for c in helper.fields.values()] if isinstance(helper, Adt) else []
                    nm = inner[0].lazy.name if len(inner) == 1 and isinstance(inner[0], Adt) and inner[0].lazy is not None else None
                    clones = events(p, "unimock_clone")
                    u.must_be_true(f"C15.{kind}-helper-is-this-instance-or-one-clone-of-it",
                                   (nm == "clone_of_the_instance" and clones == [("unimock_clone", "the_instance")]) or (nm == "the_instance" and not clones), {"helper_holds": nm, "clones": clones})
                    released = [e for e in p.trace if e[0] == "drop" and rc_ty.match(str(e[3]).replace(" ", ""))]
                    if nm == "the_instance":
                        may_hold_original = True
                        u.must_be_true(f"C15.{kind}-receiver-moved-into-the-helper-is-not-also-released", not released, {"drops": released})
                    elif released:
                        u.must_hold(f"C15.{kind}-receiver-not-released-before-the-default-body-runs", p.pc, z3.UGT(strong, 1), {"released": [e[1:] for e in released], "helper_holds": nm})
                # the way back (a by-Rc required method called from the default body): the instance held by the helper is not
                # released while a clone of it is handed on
                for holds in (["clone_of_the_instance", "the_instance"] if may_hold_original else ["clone_of_the_instance"]):
                    dlg = Adt("DefaultImplDelegator", None)
                    dlg.fields[(None, 0)] = Cell(lazy_adt("Unimock", holds), None, "delegator.unimock")
                    mach = eng.start(g, [mk_rc(kind, dlg, "rc_delegator")])
                    mach.pc.append(z3.UGE(strong, 1))
                    paths = eng.explore(mach)
                    u.paths += len(paths)
                    for p in paths:
                        if p.outcome[0] in ("unknown", "bound"):
                            u.errors.append(f"{kind} from_delegator: {p.outcome[0]}: {p.outcome[1]}")
                            continue
                        if p.outcome[0] != "return" or eng.check(p.pc) != z3.sat:
                            continue
                        r = p.outcome[1]
                        got = r.fields[(None, 0)].val if isinstance(r, Adt) and r.ty in ("Rc", "Arc") else None
                        nm = got.lazy.name if isinstance(got, Adt) and got.lazy is not None else None
                        u.must_be_true(f"C15.{kind}-mock-handed-back-is-the-helpers-instance-or-a-clone-of-it", nm in (holds, "clone_of_" + holds), {"got": nm, "helper_holds": holds})
                        released = [e for e in p.trace if e[0] == "drop" and rcd_ty.match(str(e[3]).replace(" ", ""))]
                        if holds == "the_instance" and nm != holds and released:
                            u.must_hold(f"C15.{kind}-helper-holding-the-instance-not-released-while-its-clone-is-handed-on", p.pc, z3.UGT(strong, 1), {"released": [e[1:] for e in released]})
        finally:
            for h in rch:
                eng.handlers.remove(h)
    finally:
        eng.handlers.remove((clone_rx, h_clone))
    return u.result()


def unit_eval_generic(eng, tier, prop):
    """C05 / C02 / C12: the generic glue eval::eval<F>: every decision of eval_dyn is mapped to the documented continuation,
    the caller's `inputs` value is handed back UNCHANGED in every Continue, the matcher / debug closures only borrow it,
    a returner without output is an error (never a default value)."""
    u = Unit(eng, "eval-generic", ["eval::eval<F>", "eval::eval::{closure#0}", "eval::eval::{closure#1}", "DynCtx::downcast_responder"],
             "every EvalResult / DynResponder variant; returner output Some/None; downcast Ok/Err")
    f = eng.find_fn(r"^eval::eval$")
    hs = []

    def add(rx, h):
        it_ = (re.compile(rx), h)
        eng.handlers.insert(0, it_)
        hs.append(it_)
    RESPV = eng.enums["DynResponder"]

    def h_dyn(call):
        # arbitrary outcome of eval_dyn
        k = eng.decide(call.m, ("evaldyn", call.fr.bb), [eng.named("dyn.outcome", 64) == i for i in range(4 + len(RESPV) - 1)])
        call.m.event("eval_dyn", k)
        if k == 0:
            e = Adt("MockError", None)
            e.tag = ("dyn_error",)
            return eng.mk_enum("Result", "Err", e)
        if k == 1:
            return eng.mk_enum("Result", "Ok", Adt("EvalResult", eng.variant_index("EvalResult", "Unmock")))
        if k == 2:
            return eng.mk_enum("Result", "Ok", Adt("EvalResult", eng.variant_index("EvalResult", "CallDefaultImpl")))
        variant = RESPV[k - 3]
        r = Adt("DynResponder", eng.variant_index("DynResponder", variant))
        r.fields[(variant, 0)] = Cell(Opaque("?", f"payload_{variant}"), None, f"payload_{variant}")
        er = lazy_adt("EvalResponder", "er")
        er.fields[(None, field_index(eng, "EvalResponder", "dyn_responder"))] = Cell(Ref(Cell(r, None, "the_responder")), None, "dyn_responder")
        return eng.mk_enum("Result", "Ok", eng.mk_enum("EvalResult", "Responder", er))
    add(r"^DynCtx::eval_dyn$", h_dyn)

    def h_down(call):
        k = eng.decide(call.m, ("downcast", call.fr.bb), [eng.named_bool("downcast.ok"), z3.Not(eng.named_bool("downcast.ok"))])
        if k == 1:
            e = Adt("MockError", None)
            e.tag = ("downcast_error",)
            return eng.mk_enum("Result", "Err", e)
        tgt = lazy_adt("Typed", "typed_responder")
        return eng.mk_enum("Result", "Ok", Ref(Cell(tgt, None, "typed_responder")))
    add(r"^DynCtx::downcast_responder$", h_down)

    def h_out(call):
        k = eng.decide(call.m, ("output", call.fr.bb), [eng.named_bool("output.some"), z3.Not(eng.named_bool("output.some"))])
        call.m.event("get_output")
        if k == 0:
            o = Adt("Output", None)
            o.tag = ("the_output",)
            return eng.mk_enum("Option", "Some", o)
        return eng.mk_enum("Option", "None")
    add(r"^Returner::get_output$", h_out)

    def h_clone(call):
        a = Adt("AnswerClosure", None)
        a.tag = ("answer_closure_of", call.argv[0].cell.name if isinstance(call.argv[0], Ref) else "?")
        return a
    add(r"^<AnswerClosure as Clone>::clone$", h_clone)
    try:
        with opaque_calls(eng, [r"^<F as MockFn>::info$", r"^DynCtx::fn_call$", r"^FnMocker::debug_pattern$", r"^<Box as Clone>::clone$"]):
            ref, uni, st = build_unimock(eng, 0)
            inputs = Adt("Inputs", None)
            inputs.tag = ("the_inputs",)
            paths = u.explore(f, [ref, inputs])
        out = eng.named("dyn.outcome", 64)
        seen = set()
        for p in paths:
            if p.outcome[0] != "return":
                if p.outcome[0] == "panic":
                    u.must_be_true("C08.eval-never-panics-itself", False, {"site": p.outcome[1]})
                continue
            val = p.outcome[1]
            k = events(p, "eval_dyn")[0][1]
            is_ok = val.discr == eng.variant_index("Result", "Ok")
            pay = val.fields[("Ok" if is_ok else "Err", 0)].val
            ctx = {"dyn_outcome": k}
            if is_ok:
                ev = eng.enums["Eval"][pay.discr]
                if ev == "Continue":
                    cont = pay.fields[("Continue", 0)].val
                    inp = pay.fields[("Continue", 1)].val
                    ck = eng.enums["Continuation"][cont.discr]
                    seen.add("Continue:" + ck)
                    u.must_be_true("C05.inputs-handed-back-unchanged", isinstance(inp, Adt) and inp.tag == ("the_inputs",), {"got": repr(inp)[:60]})
                    want = {1: "Unmock", 2: "CallDefaultImpl"}
                    if k in want:
                        u.must_be_true("C07.continuation-of-the-table-decision", ck == want[k], ctx)
                    else:
                        rv = RESPV[k - 3]
                        wantk = {"Answer": "Answer", "Unmock": "Unmock", "ApplyDefaultImpl": "CallDefaultImpl"}.get(rv)
                        u.must_be_true("C02.continuation-per-responder-kind", ck == wantk, {"responder": rv, "got": ck})
                        if ck == "Answer":
                            ac = cont.fields[("Answer", 0)].val
                            u.must_be_true("C02.answer-closure-of-the-selected-responder", isinstance(ac, Adt) and ac.tag and ac.tag[0] == "answer_closure_of" and "typed_responder" in ac.tag[1], {"tag": getattr(ac, "tag", None)})
                else:
                    seen.add("Return")
                    o = pay.fields[("Return", 0)].val
                    u.must_be_true("C02.returned-output-is-the-returners", isinstance(o, Adt) and o.tag == ("the_output",), ctx)
                    u.must_be_true("C02.return-only-for-return-responders", k >= 3 and RESPV[k - 3] == "Return", ctx)
                    u.must_be_true("C12.output-requested-exactly-once-per-call", len(events(p, "get_output")) == 1)
            else:
                if isinstance(pay, Adt) and pay.tag:
                    seen.add("Err:" + pay.tag[0])
                    if pay.tag[0] == "dyn_error":
                        u.must_be_true("C07.table-error-propagates", k == 0, ctx)
                else:
                    ek = eng.enums["MockError"][pay.discr]
                    seen.add("Err:" + ek)
                    if ek == "CannotReturnValueMoreThanOnce":
                        u.must_hold("C12.no-output-is-an-error-never-a-default", p.pc, z3.Not(eng.named_bool("output.some")), ctx)
                        u.must_be_true("C12.only-for-return-responders", k >= 3 and RESPV[k - 3] == "Return", ctx)
                    elif ek == "ExplicitPanic":
                        u.must_be_true("C02.explicit-panic-only-for-panic-responders", k >= 3 and RESPV[k - 3] == "Panic", ctx)
                    else:
                        u.must_be_true("C08.unexpected-error-kind", False, {"kind": ek})
        need = {"Continue:Answer", "Continue:Unmock", "Continue:CallDefaultImpl", "Return", "Err:CannotReturnValueMoreThanOnce", "Err:ExplicitPanic", "Err:dyn_error", "Err:downcast_error"}
        u.witness(f"all outcomes reachable missing={sorted(need - seen)}", [z3.BoolVal(need <= seen)])
        # the two closures given to eval_dyn only BORROW the inputs (matcher and debugger see the caller's arguments)
        for cname, callee_rx in (("closure#0", r"debug_inputs$"), ("closure#1", r"match_inputs")):
            c = [x for x in eng.fns if x.raw_name == f"eval::eval::{{{cname}}}"]
            ok = len(c) == 1 and any(re.search(callee_rx, cal) and any("(*_1).0" in a or "_1.0" in a or re.search(r"_\d+", a) for a in args) for cal, args in all_callees(eng, c[0]))
            u.must_be_true(f"C05.{cname}-passes-the-borrowed-inputs", ok, {"callees": [cal[:60] for cal, _ in all_callees(eng, c[0])] if c else []})
    finally:
        for it_ in hs:
            eng.handlers.remove(it_)
    return u.result()


# ------------------------------------------------------------------------------------------- C20: bundled mirrors
def _trait_items(src, name):
    """{method: has_body} for `trait name { .. }` in src (first definition), or None."""
    m = re.search(r"\btrait\s+" + re.escape(name) + r"\b[^{;]*\{", src)
    if not m:
        return None
    i = m.end() - 1
    depth = 0
    j = i
    n = len(src)
    while j < n:
        if src[j] == "{":
            depth += 1
        elif src[j] == "}":
            depth -= 1
            if depth == 0:
                break
        j += 1
    body = src[i + 1:j]
    body = re.sub(r"//[^\n]*", "", body)
    body = re.sub(r"/\*.*?\*/", "", body, flags=re.S)
    out = {}
    depth = 0
    k = 0
    L = len(body)
    while k < L:
        c = body[k]
        if c == "{":
            depth += 1
        elif c == "}":
            depth -= 1
        elif depth == 0 and body.startswith("fn", k) and (k == 0 or not (body[k - 1].isalnum() or body[k - 1] == "_")) and k + 2 < L and body[k + 2] in " \t\n":
            mm = re.match(r"fn\s+(\w+)", body[k:])
            if mm:
                # scan to the end of the signature: first `;` or `{` at bracket depth 0
                q = k
                pd = 0
                while q < L:
                    ch = body[q]
                    if ch in "([<" and not (ch == "<" and body[q - 1] in "-="):
                        pd += 1 if ch != "<" else 0
                    elif ch in ")]":
                        pd -= 1
                    elif pd == 0 and ch in ";{":
                        out[mm.group(1)] = (ch == "{")
                        break
                    q += 1
                k = q
                continue
        k += 1
    return out


def _find_upstream(trait_path):
    import glob
    segs = trait_path.split("::")
    name = segs[-1]
    crate = segs[0]
    roots = []
    if crate in ("core", "std", "alloc"):
        for tc in glob.glob(os.path.expanduser("~/.rustup/toolchains/nightly-*/lib/rustlib/src/rust/library")):
            roots += [os.path.join(tc, c, "src") for c in ("core", "std", "alloc")]
    else:
        pat = {"embedded_hal": "embedded-hal-1*", "embedded_hal_1": "embedded-hal-1*", "tokio": "tokio-1*", "tokio_1": "tokio-1*", "futures_io": "futures-io-0.3*",
               "futures_io_0_3": "futures-io-0.3*"}.get(crate, crate.replace("_", "-") + "-*")
        roots += glob.glob(os.path.expanduser(f"~/.cargo/registry/src/*/{pat}/src"))
    best = None
    for root in roots:
        for dp, _, fs in os.walk(root):
            for f in fs:
                if not f.endswith(".rs"):
                    continue
                pth = os.path.join(dp, f)
                try:
                    txt = open(pth).read()
                except OSError:
                    continue
                if re.search(r"\bpub\s+(unsafe\s+)?trait\s+" + re.escape(name) + r"\b", txt):
                    score = sum(1 for sg in segs[1:-1] if sg in pth.replace("\\", "/").split("src/")[-1])
                    if best is None or score > best[0]:
                        best = (score, pth, txt)
    return best


def unit_mirror_wiring(eng_unused, tier, prop, root=None):
    """C20: for every trait mirrored under unimock::mock — each method evaluates its own MockFn; a method is treated as
    provided (default body delegated to the UPSTREAM default) exactly when upstream provides it; the helper's impl of
    the trait contains exactly the required methods."""
    mir, repo, dt = dump_mir(root, "mocks")
    eng = Engine(mir, repo)
    u = Unit(eng, "mirror-wiring", ["every generated impl under src/mock/*.rs (MIR with all mock-* features)"], "all traits mirrored in src/mock/{core,std,embedded_hal_1,tokio_1,futures_0_3}.rs; all their methods")
    import glob
    mirrors = []
    for path in sorted(glob.glob(os.path.join(repo, "src", "mock", "*.rs"))):
        txt = open(path).read()
        for m in re.finditer(r"#\[unimock\(([^\]]*)\)\]\s*pub\s+trait\s+(\w+)", txt):
            attrs = m.group(1)
            mm = re.search(r"mirror\s*=\s*([\w:]+)", attrs)
            api = re.search(r"api\s*=\s*(\w+)", attrs)
            if not mm:
                continue
            line = txt.count("\n", 0, m.start()) + 1
            items = _trait_items(txt[m.start():], m.group(2))
            lines = {}
            for fm in re.finditer(r"\bfn\s+(\w+)", txt[m.start():]):
                lines.setdefault(fm.group(1), txt.count("\n", 0, m.start() + fm.start()) + 1)
            mpath = mm.group(1)
            if "::" not in mpath:
                # imported by a `use` of the file: qualify by the crate the file mirrors
                mpath = {"tokio_1.rs": "tokio_1::io::", "futures_0_3.rs": "futures_io_0_3::"}.get(os.path.basename(path), "") + mpath
            mirrors.append({"file": os.path.relpath(path, repo), "line": line, "trait": m.group(2), "mirror": mpath, "api": api.group(1) if api else None, "items": items or {}, "lines": lines})
    u.must_be_true("C20.mirrors-found", len(mirrors) >= 15, {"n": len(mirrors)})
    # hand-written forwarding impls of the delegation helper (Display / Debug): each forwards to the entry point of ITS OWN
    # trait on the wrapped mock (a default body that formats `self` runs on the helper)
    fwd = [g for g in eng.fns if g.short == "fmt" and g.module.startswith("default_impl_delegator::") and g.params and "DefaultImplDelegator" in g.params[0][1]]
    u.must_be_true("C20.helper-formatting-impls-found", len(fwd) == 2, {"n": len(fwd)})
    seen_traits = set()
    for g in fwd:
        callees = [c for c, _ in all_callees(eng, g)]
        tgt = [re.search(r"<Unimock as (?:[\w:]*::)?(\w+)>::fmt", c) for c in callees]
        tgt = [t.group(1) for t in tgt if t]
        # which trait is this impl for: the impl header in the source at the impl's line
        own = None
        if g.impl_span:
            try:
                ln = open(os.path.join(repo, g.impl_span[0])).read().split("\n")[g.impl_span[1] - 1]
                mo = re.search(r"impl\s+(?:[\w:]*::)?(\w+)\s+for\s+DefaultImplDelegator", ln)
                own = mo.group(1) if mo else None
            except Exception:
                own = None
        seen_traits.add(own)
        u.must_be_true("C20.helper-forwards-formatting-to-the-same-trait-on-the-mock", own is not None and tgt == [own], {"impl_for": own, "forwards_to": tgt})
    u.must_be_true("C20.helper-implements-display-and-debug", seen_traits == {"Display", "Debug"}, {"traits": sorted(map(str, seen_traits))})
    checked = 0
    for mr in mirrors:
        up = _find_upstream(mr["mirror"])
        u.must_be_true(f"C20.upstream-definition-found[{mr['mirror']}]", up is not None)
        if up is None:
            continue
        upstream = _trait_items(up[2], mr["mirror"].split("::")[-1]) or {}
        # generated functions of this mirror: same file, impl span starting at the attribute line
        gen = [f for f in eng.fns if f.impl_span and f.impl_span[0] == mr["file"] and f.impl_span[1] == mr["line"]]
        on_mock = {}
        on_helper = {}
        for f in gen:
            if "{closure" in f.short or not f.params:
                continue
            t0 = f.params[0][1]
            if "DefaultImplDelegator" in t0:
                on_helper[f.short] = f
            elif "Unimock" in t0:
                on_mock[f.short] = f
        for meth, has_body in mr["items"].items():
            ctx = {"trait": mr["mirror"], "method": meth}
            if meth not in upstream:
                u.must_be_true("C20.mirrored-method-exists-upstream", False, ctx)
                continue
            checked += 1
            u.must_be_true("C20.provided-exactly-when-upstream-provides", has_body == upstream[meth], dict(ctx, mirror_has_body=has_body, upstream_provided=upstream[meth]))
            f = on_mock.get(meth)
            u.must_be_true("C20.method-implemented-on-the-mock", f is not None, ctx)
            if f is None:
                continue
            bodies = [f] + [g for g in gen if re.search(r"::" + re.escape(meth) + r"::\{closure#\d+\}", g.raw_name)]
            evals = [c for b in bodies for c, _ in all_callees(eng, b) if re.search(r"private::eval::<", c)]
            ok = len(evals) >= 1 and all(re.search(r"(::|<|, |'_, )(__Generic)?" + re.escape(meth) + r"(<[^<>]*>)?>$", c.strip()) for c in evals)
            u.must_be_true("C20.method-evaluates-its-own-mock-entry-point", ok, dict(ctx, evals=[c[-50:] for c in evals]))
            delegates = any(re.search(r"<(default_impl_delegator::)?DefaultImplDelegator as .*>::" + re.escape(meth) + r"$", c) for b in bodies for c, _ in all_callees(eng, b))
            u.must_be_true("C20.default-impl-arm-exactly-for-upstream-provided-methods", delegates == upstream[meth], dict(ctx, delegates=delegates))
            if any(upstream.get(x) for x in mr["items"]):
                # (traits without provided methods get no generated helper impl: nothing to delegate to)
                u.must_be_true("C20.helper-overrides-exactly-the-required-methods", (meth in on_helper) == (not upstream[meth]), dict(ctx, on_helper=meth in on_helper))
            # MockFnInfo: has_default_impl flag
            ln = mr["lines"].get(meth)
            infos = [g for g in eng.fns if g.short == "info" and g.impl_span and g.impl_span[0] == mr["file"] and g.impl_span[1] == ln]
            if infos:
                flag = any("default_impl" in c for c, _ in all_callees(eng, infos[0]))
                u.must_be_true("C20.info-flags-provided-methods", flag == upstream[meth], dict(ctx, flag=flag))
    u.witness(f"{checked} mirrored methods checked", [z3.BoolVal(checked >= 30)])
    # Termination::report is partial by default
    tr = [g for g in eng.fns if g.short == "info" and g.module.startswith("TerminationMock")]
    u.must_be_true("C20.termination-report-is-partial-by-default", len(tr) == 1 and any(re.search(r"\.\d+: bool\) = const true", s_) for b in tr[0].blocks.values() for s_ in b.stmts), {})
    r = u.result()
    r["mir_dump_s"] = round(dt, 1)
    return r


def leaves_conv(val, acc):
    if isinstance(val, Adt):
        if val.tag and val.tag[0] == "stored_of":
            acc.append(val.tag[1])
        for k in sorted(val.fields, key=lambda kk: (str(kk[0]), kk[1])):
            leaves_conv(val.fields[k].val, acc)
    elif isinstance(val, VecVal):
        for c in val.items:
            leaves_conv(c.val, acc)
    return acc


def unit_output_containers(eng, tier, prop):
    """C17 / C12 / C02: the deep containers (Option, Result, Poll, Vec, 1..4-tuples): `output()` reproduces the stored shape
    and yields None (=> the call panics) as soon as ANY leaf is exhausted — never a partial value; the single-use path
    converts every leaf through into_return_once and the repeatable path through into_return."""
    u = Unit(eng, "output-containers", ["<deep::{option,result,poll,vec,tup0..3}::AsReturn as GetOutput>::output", "IntoReturn / IntoReturnOnce for the deep and shallow containers"],
             "every stored variant; each leaf's output symbolic in {Some, None}; Vec with 0..3 elements; tuples of arity 1..4")
    rx = re.compile(r"as (output::)?GetOutput>::output$")

    def h(call):
        who = call.argv[0].cell.name if isinstance(call.argv[0], Ref) else "?"
        b = eng.named_bool(f"leaf[{who}].available")
        k = eng.decide(call.m, ("leaf", call.fr.bb, who), [b, z3.Not(b)])
        call.m.event("leaf_output", who)
        if k == 0:
            o = Adt("LeafOutput", None)
            o.tag = ("output_of", who)
            return eng.mk_enum("Option", "Some", o)
        return eng.mk_enum("Option", "None")
    eng.handlers.insert(0, (rx, h))
    # C08 / C12: "no value available" is reported to the caller as None (which becomes a recorded MockError); an output
    # implementation never panics by itself (unwrap / expect / arithmetic or bounds assertion)
    sites = []
    outs = [g for g in eng.fns if g.short == "output" and (g.module or "").startswith(("output::", "shallow::", "deep::", "owning::", "lending::", "static_ref::")) or (g.short == "output" and "src/output" in (g.impl_span[0] if g.impl_span else ""))]
    for g in outs:
        for callee, _ in all_callees(eng, g):
            if re.search(r"panic_fmt|begin_panic|panic_display|::panic$|unwrap_failed|expect_failed|Option::<.*>::expect|Option::<.*>::unwrap$|Result::<.*>::unwrap$|Result::<.*>::expect", callee):
                sites.append((g.raw_name[-60:], callee[:50]))
        for b in g.blocks.values():
            if not b.cleanup and (b.term or "").startswith("assert(") and ("attempt to" in b.term or "index out of bounds" in b.term):
                sites.append((g.raw_name[-60:], b.term[:60]))
    u.must_be_true("C08.output-impls-found", len(outs) >= 8, {"n": len(outs)})
    u.must_be_true("C08.output-impls-have-no-direct-panic-site", not sites, {"sites": sites[:4]})

    def leaves_in(val, acc):
        if isinstance(val, Adt):
            if val.tag and val.tag[0] == "output_of":
                acc.append(val.tag[1])
            for k in sorted(val.fields, key=lambda kk: (str(kk[0]), kk[1])):
                leaves_in(val.fields[k].val, acc)
        elif isinstance(val, VecVal):
            for c in val.items:
                leaves_in(c.val, acc)
        return acc

    def check(fn, stored, leaf_names, label, shape_check=None):
        paths = u.explore(fn, [Ref(Cell(stored, None, "stored"))], note=f"[{label}]")
        avail = [eng.named_bool(f"leaf[{n}].available") for n in leaf_names]
        for p in paths:
            if p.outcome[0] != "return":
                if p.outcome[0] == "panic":
                    u.must_be_true(f"C17.output-never-panics[{label}]", False, {"site": p.outcome[1]})
                continue
            val = p.outcome[1]
            some = val.discr == eng.variant_index("Option", "Some")
            # a request that finds a leaf exhausted must not go on and TAKE later leaves (they would be destroyed without
            # reaching any caller): the leaf requests stop at the first unavailable leaf
            req = [e[1] for e in events(p, "leaf_output")]
            u.must_be_true(f"C12.leaves-requested-in-order-stopping-at-the-first-exhausted[{label}]", req == leaf_names[:len(req)] and (some or len(req) >= 1 or not leaf_names), {"requested": req})
            if not some and leaf_names:
                u.must_hold(f"C12.no-leaf-taken-after-an-exhausted-one[{label}]", p.pc, z3.And([avail[i] for i in range(len(req) - 1)] + [z3.Not(avail[len(req) - 1])]) if req else z3.BoolVal(False), {"requested": req})
            if some:
                u.must_hold(f"C12.value-only-if-every-leaf-is-available[{label}]", p.pc, z3.And(avail) if avail else z3.BoolVal(True))
                got = leaves_in(val.fields[("Some", 0)].val, [])
                u.must_be_true(f"C17.same-leaves-same-order-same-count[{label}]", got == leaf_names, {"got": got, "want": leaf_names})
                if shape_check:
                    u.must_be_true(f"C17.same-variant[{label}]", shape_check(val.fields[("Some", 0)].val), {"val": repr(val)[:120]})
            else:
                u.must_hold(f"C12.none-only-if-some-leaf-is-exhausted[{label}]", p.pc, z3.Not(z3.And(avail)) if avail else z3.BoolVal(False))
        u.must_be_unsat(f"C17.output-covers-all-leaf-states[{label}]", [z3.Not(z3.Or([z3.And(p.pc) if p.pc else z3.BoolVal(True) for p in paths if p.outcome[0] == "return"]))])
        return paths
    try:
        # Option
        f = eng.find_fn(r"^deep::option::<impl at src/output/deep/option\.rs:\d+:1: \d+:19>::output$")
        s_some = Adt("AsReturn", eng.variant_index("AsReturn", "Some") if "AsReturn" in eng.enums and "Some" in eng.enums["AsReturn"] else 0)
        # AsReturn enums of option/poll/result share a name: variant indices by declaration order of each file
        def enum_of(file_rel, name="AsReturn"):
            txt = re.sub(r"//[^\n]*", "", open(os.path.join(eng.src_root, file_rel)).read())
            m = re.search(r"\benum\s+" + name + r"\b[^{]*\{([^}]*)\}", txt)
            return [re.match(r"\s*(\w+)", x).group(1) for x in m.group(1).split(",") if x.strip()]
        ov = enum_of("src/output/deep/option.rs")
        for variant in ov:
            st = Adt("AsReturn", ov.index(variant))
            names = []
            if variant == "Some":
                st.fields[("Some", 0)] = Cell(lazy_adt("Leaf", "leaf0"), None, "leaf0")
                names = ["leaf0"]
            check(f, st, names, f"Option::{variant}", lambda v, variant=variant: v.discr == eng.variant_index("Option", variant))
        # Poll
        f = eng.find_fn(r"^poll::<impl at src/output/deep/poll\.rs:\d+:1: \d+:19>::output$")
        pv = enum_of("src/output/deep/poll.rs")
        for variant in pv:
            st = Adt("AsReturn", pv.index(variant))
            names = []
            if variant == "Ready":
                st.fields[("Ready", 0)] = Cell(lazy_adt("Leaf", "leaf0"), None, "leaf0")
                names = ["leaf0"]
            check(f, st, names, f"Poll::{variant}", lambda v, variant=variant: v.discr == eng.variant_index("Poll", variant))
        # Result
        f = eng.find_fn(r"^deep::result::<impl at src/output/deep/result\.rs:\d+:1: \d+:19>::output$")
        rv = enum_of("src/output/deep/result.rs")
        for variant in rv:
            st = Adt("AsReturn", rv.index(variant))
            st.fields[(variant, 0)] = Cell(lazy_adt("Leaf", "leaf0"), None, "leaf0")
            check(f, st, ["leaf0"], f"Result::{variant}", lambda v, variant=variant: v.discr == eng.variant_index("Result", variant))
        # Vec with n elements
        f = eng.find_fn(r"^deep::vec::<impl at src/output/deep/vec\.rs:\d+:1: \d+:19>::output$")
        for n in range(0, 4):
            items = [Cell(lazy_adt("Leaf", f"elem{i}"), None, f"elem{i}") for i in range(n)]
            st = Adt("AsReturn", None)
            st.fields[(None, 0)] = Cell(VecVal(None, items, "Vec"), None, "elems")
            check(f, st, [f"elem{i}" for i in range(n)], f"Vec[{n}]")
        # tuples
        for arity in range(1, 5):
            cands = [g for g in eng.fns if g.short == "output" and g.module.startswith(f"tup{arity - 1}::")]
            u.must_be_true(f"C17.tuple-impl-found[{arity}]", len(cands) == 1)
            if len(cands) != 1:
                continue
            st = Adt("AsReturn", None)
            for i in range(arity):
                st.fields[(None, i)] = Cell(lazy_adt("Leaf", f"t{i}"), None, f"t{i}")
            check(cands[0], st, [f"t{i}" for i in range(arity)], f"tuple{arity}")
        # Vec conversions keep the element order (both paths)
        rxc = re.compile(r"IntoReturn(Once)?>::into_return(_once)?$")

        def hc(call):
            v = call.argv[0]
            o = Adt("Stored", None)
            o.tag = ("stored_of", v.tag[1] if isinstance(v, Adt) and v.tag else "?")
            call.m.event("leaf_convert", o.tag[1])
            return eng.mk_enum("Result", "Ok", o)
        eng.handlers.insert(0, (rxc, hc))
        try:
            for conv in ("into_return", "into_return_once"):
                cf = [g for g in eng.fns if g.short == conv and g.module.startswith("deep::vec::")]
                u.must_be_true(f"C17.deep-vec-{conv}-found", len(cf) == 1)
                if len(cf) != 1:
                    continue
                items = []
                for i in range(3):
                    e = Adt("Elem", None)
                    e.tag = ("elem", f"e{i}")
                    items.append(Cell(e, None, f"e{i}"))
                paths = u.explore(cf[0], [VecVal(None, items, "Vec")], note=f"[vec {conv}]")
                for p in paths:
                    if p.outcome[0] != "return":
                        continue
                    got = leaves_conv(p.outcome[1], [])
                    u.must_be_true(f"C17.deep-vec-conversion-keeps-element-order[{conv}]", got == ["e0", "e1", "e2"], {"got": got})
        finally:
            eng.handlers.remove((rxc, hc))
        # conversions: single-use path uses into_return_once for every leaf, repeatable path uses into_return
        conv = [g for g in eng.fns if g.short in ("into_return", "into_return_once") and re.match(r"(deep|poll|tup\d|shallow)", g.module)]
        n_checked = 0
        for g in conv:
            bodies = [g] + [c for c in eng.fns if c.raw_name.startswith(g.raw_name + "::{closure")]
            leafs = [cal for b in bodies for cal, _ in all_callees(eng, b) if re.search(r"IntoReturn(Once)?<.*>>::into_return(_once)?$", cal)]
            for cal in leafs:
                n_checked += 1
                u.must_be_true("C12.leaf-conversion-matches-the-path", cal.endswith("::" + g.short), {"container": g.raw_name[:70], "leaf_conversion": cal[-60:]})
        u.witness(f"{n_checked} leaf conversions checked", [z3.BoolVal(n_checked >= 12)])
    finally:
        eng.handlers.remove((rx, h))
    return u.result()


def unit_todo(eng, tier, prop):
    u = Unit(eng, "todo", [], "")
    u.errors.append("unit not implemented yet")
    return u.result()


def _generated_forwarding(eng, tier, prop, root=None):
    from . import genunits
    return genunits.unit_generated_forwarding(eng, tier, prop, root=root)


def decode_fmt_template(t):
    """Decode the compact `fmt::Arguments` template (`Arguments::new::<N, M>(b"...")`): a byte < 0x80 is the length of a literal
    piece that follows, 0xC0 is a placeholder with default options taking the next argument, 0x00 ends the template.
    Anything else (explicit options) is reported as an opaque placeholder."""
    if isinstance(t, str):
        raw = t
        if raw.startswith('b"') and raw.endswith('"'):
            raw = raw[2:-1]
        b = bytearray()
        i = 0
        while i < len(raw):
            if raw[i] == "\\":
                if raw[i + 1] == "x":
                    b.append(int(raw[i + 2:i + 4], 16))
                    i += 4
                else:
                    b.append({"n": 10, "t": 9, "r": 13, "0": 0, "\\": 92, '"': 34, "'": 39}[raw[i + 1]])
                    i += 2
            else:
                b.extend(raw[i].encode())
                i += 1
    else:
        b = bytearray(t)
    out = []
    i = 0
    while i < len(b):
        c = b[i]
        if c == 0:
            break
        if c < 0x80:
            out.append(("lit", b[i + 1:i + 1 + c].decode("utf-8", "replace")))
            i += 1 + c
        elif c == 0xC0:
            out.append(("arg",))
            i += 1
        else:
            out.append(("arg?", c))
            i += 1
    return out


def unit_display_call(eng, tier, prop):
    """C19 / C08: the `Trait::method(args)` rendering of a call (the prefix of every mock-induced error text): the path, then the
    inputs in declaration order separated by ", ", "?" for an input without a Debug rendering, for every arity and every
    Some/None assignment; formatting never panics (a panic here would pre-empt the recording of the error, C08)."""
    u = Unit(eng, "display-call", ["<FnActualCall as Display>::fmt"],
             "arity 0..=N inputs (N = 3 quick, 4 thorough), each input's Debug rendering symbolically present or absent; the Formatter is infallible (write_fmt returns Ok)")
    f = eng.find_fn(r"debug::<impl at src/debug\.rs[^>]*>::fmt$") if False else None
    cands = [g for g in eng.fns if g.short == "fmt" and getattr(g, "self_ty", None) == "FnActualCall"]
    if len(cands) != 1:
        cands = [g for g in eng.fns if g.short == "fmt" and g.params and g.params[0][1].replace(" ", "") in ("&FnActualCall", "&debug::FnActualCall")]
    u.must_be_true("C19.display-impl-found", len(cands) == 1, {"n": len(cands)})
    if len(cands) != 1:
        return u.result()
    f = cands[0]
    i_info = field_index(eng, "FnActualCall", "info")
    i_in = field_index(eng, "FnActualCall", "inputs_debug")
    i_path = field_index(eng, "MockFnInfo", "path")
    N = 4 if tier == "thorough" else 3

    def end_value(v):
        hops = 0
        while isinstance(v, Ref) and hops < 6:
            v = eng.force(v.cell)
            hops += 1
        return v

    def h_arg(call):
        a = Adt("fmt::Argument", None)
        v = end_value(call.argv[0])
        a.tag = ("operand", v.tag if isinstance(v, Adt) and v.tag else ("?", repr(v)[:40]), call.callee.split("::")[-1])
        return a

    def h_write(call):
        args = call.argv[1]
        tag = args.tag if isinstance(args, Adt) else None
        pieces = []
        if tag and tag[0] == "fmt":
            ops = list(tag[2] or ())
            if ops or tag[1].startswith('b"') or "\\x" in tag[1]:
                for pc in decode_fmt_template(tag[1]):
                    if pc[0] == "lit":
                        pieces.append(pc[1])
                    else:
                        o = ops.pop(0) if ops else None
                        pieces.append(("arg", o[1] if o else None))
            else:
                pieces.append(tag[1])
        else:
            pieces.append(("unknown",))
        call.m.event("write", tuple(pieces))
        return eng.mk_enum("Result", "Ok", UNIT)
    hs = [(re.compile(r"rt::Argument::new_(display|debug)$"), h_arg), (re.compile(r"Formatter::write_fmt$|Formatter::write_str$"), h_write)]
    for h in hs:
        eng.handlers.insert(0, h)
    try:
        total = 0
        for n in range(0, N + 1):
            items = []
            present = []
            for i in range(n):
                o = Adt("Option", None)
                d = eng.named(f"input[{i}].has_debug", 64)
                sv = Adt("String", None)
                sv.tag = ("input", i)
                o.fields[("Some", 0)] = Cell(sv, None, f"in{i}")
                o.discr = Int(d, 64, False)
                present.append(d)
                items.append(Cell(o, None, f"inputs[{i}]"))
            call = Adt("FnActualCall", None)
            info = Adt("MockFnInfo", None)
            pth = Adt("TraitMethodPath", None)
            pth.tag = ("path",)
            info.fields[(None, i_path)] = Cell(pth, None, "path")
            call.fields[(None, i_info)] = Cell(info, None, "info")
            vec = VecVal(None, items, "Box<[T]>")
            call.fields[(None, i_in)] = Cell(Ref(Cell(vec, None, "inputs"), "box"), None, "inputs_debug")
            fm = Adt("Formatter", None)
            mach = eng.start(f, [Ref(Cell(call, None, "call")), Ref(Cell(fm, None, "f"))])
            for d in present:
                mach.pc.append(z3.ULE(d, 1))
            paths = eng.explore(mach)
            u.paths += len(paths)
            cover = []
            for p in paths:
                if p.outcome[0] in ("unknown", "bound"):
                    u.errors.append(f"display[{n}]: {p.outcome[0]}: {p.outcome[1]}")
                    continue
                if eng.check(p.pc) != z3.sat:
                    continue
                cover.append(z3.And(p.pc) if p.pc else z3.BoolVal(True))
                u.must_be_true(f"C08.rendering-a-call-never-panics[arity {n}]", p.outcome[0] == "return", {"outcome": repr(p.outcome)[:200]})
                if p.outcome[0] != "return":
                    continue
                # flatten the written pieces
                flat = []
                for e in p.trace:
                    if e[0] == "write":
                        flat.extend(e[1])
                # expected, as a function of the presence bits: decided per path by asking the solver for each bit's value
                exp = [("arg", ("path",)), "("]
                ok_bits = True
                for i in range(n):
                    some = eng.check(list(p.pc) + [present[i] == 1]) == z3.sat
                    none = eng.check(list(p.pc) + [present[i] == 0]) == z3.sat
                    if some and none:
                        ok_bits = False   # the path did not look at this input at all
                    if i:
                        exp.append(", ")
                    exp.append(("arg", ("input", i)) if some else "?")
                exp.append(")")
                # literal pieces may be split or merged differently by a refactoring: compare the rendered text
                def text(ps):
                    return "".join(x if isinstance(x, str) else "{" + ",".join(map(str, x[1] or ("?",))) + "}" for x in ps)
                u.must_be_true(f"C19.call-rendered-as-path-and-inputs-in-order[arity {n}]", ok_bits and text(flat) == text(exp), {"rendered": text(flat), "expected": text(exp), "every_input_inspected": ok_bits})
                total += 1
            u.must_be_unsat(f"C19.rendering-covers-every-presence-assignment[arity {n}]", [z3.ULE(d, 1) for d in present] + [z3.Not(z3.Or(cover))] if cover else [z3.BoolVal(True)])
        u.witness("renderings checked", [z3.BoolVal(total >= 2 ** N)])
    finally:
        for h in hs:
            eng.handlers.remove(h)
    return u.result()


def unit_chain_schedules(eng, tier, prop):
    """C13 / C10: concurrent `ValueChain::push_node` through a shared reference. The per-thread step programs (sequences of
    OnceCell operations with their outcomes, and which node the call returns) are extracted from the MIR; the interleaving of
    T threads is a SYMBOLIC schedule; the solver decides for every schedule that each push returns a reference to ITS OWN node,
    that every node ends up linked exactly once, and that earlier nodes are never displaced."""
    configs = [(2, 0), (2, 1), (3, 0)] + ([(3, 1), (4, 0), (2, 2)] if tier == "thorough" else [])
    u = Unit(eng, "chain-schedules", ["ValueChain::push_node", "ValueChain::push_value", "Node::new"],
             "threads x pre-existing nodes in " + ", ".join(f"{t}x{p_}" for t, p_ in configs) + "; every interleaving of the OnceCell operations (each one atomic: the cell library is trusted); sequentially consistent")
    f = eng.find_fn(r"^value_chain::.*::push_node$")
    i_root = field_index(eng, "ValueChain", "root")
    i_next = field_index(eng, "Node", "next")
    i_val = field_index(eng, "Node", "value")
    MAXD = max(t + p_ for t, p_ in configs)

    def chaincell(d):
        a = Adt("OnceCell", None)
        a.tag = ("chaincell", d)
        return a

    def existing(d):
        n = Adt("Node", None)
        n.tag = ("existing", d)
        v = Adt("Value", None)
        v.tag = ("value_of_existing", d)
        n.fields[(None, i_val)] = Cell(v, None, f"node{d}.value")
        n.fields[(None, i_next)] = Cell(Ref(Cell(chaincell(d + 1), None, f"cell{d + 1}"), "box"), None, f"node{d}.next")
        return n

    def depth_of(call, r):
        c = call.deref(r, "adt") if isinstance(r, Ref) else r
        if not (isinstance(c, Adt) and c.tag and c.tag[0] == "chaincell"):
            raise Unsupported(f"OnceCell operation on an untracked cell {c!r}")
        return c.tag[1]

    def fork(call, key, d):
        if d >= MAXD:
            return 0        # beyond the bound every cell is empty (at most MAXD nodes exist)
        b = eng.fresh_bool(f"cell{d}.empty")
        return eng.decide(call.m, (key, call.fr.bb, d), [b, z3.Not(b)])

    def h_try_insert(call):
        d = depth_of(call, call.argv[0])
        k = fork(call, "ti", d)
        if k == 0:
            call.m.event("once", "try_insert", d, "ok")
            return eng.mk_enum("Result", "Ok", Ref(Cell(call.argv[1], None, "inserted")))
        call.m.event("once", "try_insert", d, "full")
        t = Adt("(tuple)", None)
        t.fields[(None, 0)] = Cell(Ref(Cell(existing(d), None, f"node{d}")), None, "t.0")
        t.fields[(None, 1)] = Cell(call.argv[1], None, "t.1")
        return eng.mk_enum("Result", "Err", t)

    def h_get(call):
        d = depth_of(call, call.argv[0])
        k = fork(call, "get", d)
        if k == 0:
            call.m.event("once", "get", d, "none")
            return eng.mk_enum("Option", "None")
        call.m.event("once", "get", d, "some")
        return eng.mk_enum("Option", "Some", Ref(Cell(existing(d), None, f"node{d}")))

    def h_goi(call):
        d = depth_of(call, call.argv[0])
        k = fork(call, "goi", d)
        if k == 0:
            call.m.event("once", "get_or_init", d, "init")
            r = eng.call_closure(call, call.argv[1], [], post=("once_init", Cell(None, None, "slot")))
            if r is None:
                raise UnknownCallee(call.norm, "opaque closure")
            return r
        call.m.event("once", "get_or_init", d, "existing")
        return Ref(Cell(existing(d), None, f"node{d}"))

    def h_other(call):
        raise Unsupported(f"OnceCell operation without a concurrency model: {call.norm}")
    hs = [(re.compile(r"OnceCell::try_insert$"), h_try_insert), (re.compile(r"OnceCell::get$"), h_get), (re.compile(r"OnceCell::get_or_init$"), h_goi),
          (re.compile(r"OnceCell::(set|get_or_try_init|take|get_mut|into_inner|wait)$"), h_other)]
    for h in hs:
        eng.handlers.insert(0, h)
    try:
        chain = Adt("ValueChain", None)
        chain.fields[(None, i_root)] = Cell(chaincell(0), None, "cell0")
        own = Adt("Node", None)
        own.tag = ("own",)
        ov = Adt("Value", None)
        ov.tag = ("own_value",)
        own.fields[(None, i_val)] = Cell(ov, None, "own.value")
        own.fields[(None, i_next)] = Cell(Ref(Cell(chaincell(-1000), None, "own.next.cell"), "box"), None, "own.next")
        paths = u.explore(f, [Ref(Cell(chain, None, "chain")), own])
    finally:
        for h in hs:
            eng.handlers.remove(h)
    progs = []
    for p in paths:
        if p.outcome[0] in ("unknown", "bound"):
            continue
        if p.outcome[0] != "return":
            u.must_be_true("C13.push-never-panics", False, {"outcome": repr(p.outcome)[:200]})
            continue
        ops = [e[1:] for e in p.trace if e[0] == "once"]
        r = p.outcome[1]
        tgt = r.cell.val if isinstance(r, Ref) else r
        ident = tgt.tag if isinstance(tgt, Adt) and tgt.tag else None
        u.must_be_true("C13.push-returns-a-node-of-the-chain", ident is not None and ident[0] in ("own", "existing"), {"returned": repr(tgt)[:100]})
        if ident is None:
            continue
        progs.append((ops, ident))
    u.witness("step programs extracted", [z3.BoolVal(len(progs) >= 2)])
    if not progs or u.errors:
        return u.result()
    u.samples.append({"step_programs": [{"ops": [list(o) for o in ops], "returns": list(idn)} for ops, idn in progs[:8]]})
    maxlen = max(len(ops) for ops, _ in progs)
    W = 4
    PRE = 15
    for T, P in configs:
        ncell = T + P + 1
        usable = [(ops, idn) for ops, idn in progs if all(o[1] < ncell for o in ops)]
        S = T * max(len(ops) for ops, _ in usable)
        label = f"{T} threads, {P} earlier nodes"
        sched = [z3.BitVec(f"sched[{s_}]", W) for s_ in range(S)]
        choice = [z3.BitVec(f"path[{t}]", W) for t in range(T)]
        idx = [[z3.BitVec(f"idx[{t}][{s_}]", W) for s_ in range(S + 1)] for t in range(T)]
        cell = [[z3.BitVec(f"cell[{k}][{s_}]", W) for s_ in range(S + 1)] for k in range(ncell)]
        cs = []
        for t in range(T):
            cs += [z3.ULT(choice[t], len(usable)), idx[t][0] == 0]
        for k in range(ncell):
            cs.append(cell[k][0] == (PRE if k < P else 0))
        plen = lambda t: z3.Sum([z3.If(choice[t] == j, z3.BitVecVal(len(usable[j][0]), W), z3.BitVecVal(0, W)) for j in range(len(usable))])
        contention = []
        for s_ in range(S):
            alldone = z3.And([idx[t][s_] == plen(t) for t in range(T)])
            cs.append(z3.ULT(sched[s_], T))
            for t in range(T):
                me = sched[s_] == t
                # a scheduled thread has an operation left, unless everybody is done (then time just passes)
                cs.append(z3.Implies(z3.And(me, z3.Not(alldone)), z3.ULT(idx[t][s_], plen(t))))
                cs.append(z3.Implies(z3.Or(z3.Not(me), alldone), idx[t][s_ + 1] == idx[t][s_]))
                cs.append(z3.Implies(z3.And(me, z3.Not(alldone)), idx[t][s_ + 1] == idx[t][s_] + 1))
                for j, (ops, idn) in enumerate(usable):
                    for i, (kind, d, outc) in enumerate(ops):
                        here = z3.And(me, z3.Not(alldone), choice[t] == j, idx[t][s_] == i)
                        cur = cell[d][s_]
                        empty = cur == 0
                        writes = (kind == "try_insert" and outc == "ok") or (kind == "get_or_init" and outc == "init")
                        consistent = empty if outc in ("ok", "none", "init") else z3.Not(empty)
                        cs.append(z3.Implies(here, consistent))
                        for k in range(ncell):
                            if writes and k == d:
                                cs.append(z3.Implies(here, cell[k][s_ + 1] == t + 1))
                            else:
                                cs.append(z3.Implies(here, cell[k][s_ + 1] == cell[k][s_]))
                        if outc in ("full", "some", "existing"):
                            contention.append(z3.And(here, cur != PRE))
            for k in range(ncell):
                cs.append(z3.Implies(alldone, cell[k][s_ + 1] == cell[k][s_]))
        done = z3.And([idx[t][S] == plen(t) for t in range(T)])
        # what each push returned
        bad = []
        for t in range(T):
            for j, (ops, idn) in enumerate(usable):
                ret = z3.BitVecVal(t + 1, W) if idn[0] == "own" else cell[idn[1]][S]
                bad.append(z3.And(choice[t] == j, ret != t + 1))
        lost = []
        for t in range(T):
            cnt = z3.Sum([z3.If(cell[k][S] == t + 1, z3.BitVecVal(1, W), z3.BitVecVal(0, W)) for k in range(ncell)])
            lost.append(cnt != 1)
        displaced = [cell[k][S] != PRE for k in range(P)]
        u.must_be_unsat(f"C13.every-push-returns-its-own-node[{label}]", cs + [done, z3.Or(bad)], {"config": label}, logic="QF_BV")
        u.must_be_unsat(f"C13.every-node-linked-exactly-once[{label}]", cs + [done, z3.Or(lost)], {"config": label}, logic="QF_BV")
        if displaced:
            u.must_be_unsat(f"C13.earlier-nodes-never-displaced[{label}]", cs + [done, z3.Or(displaced)], {"config": label}, logic="QF_BV")
        # every schedule can complete within the step budget (no thread is starved by the bound)
        u.must_be_unsat(f"C10.every-schedule-completes-within-the-step-budget[{label}]", cs + [z3.Not(done)], {"config": label}, logic="QF_BV")
        u.witness(f"a complete schedule exists [{label}]", cs + [done], logic="QF_BV")
        u.witness(f"a schedule with contention exists [{label}]", cs + [done, z3.Or(contention)] if contention else [z3.BoolVal(False)], logic="QF_BV")
    return u.result()


def fmt_capture(eng):
    """Handlers that make formatting observable: every `write_fmt`/`write_str` on a Formatter emits an event ("write", pieces)
    where a piece is a literal string or ("arg", identity-of-the-operand)."""
    def end_value(v):
        hops = 0
        while isinstance(v, Ref) and hops < 6:
            v = eng.force(v.cell)
            hops += 1
        return v

    def ident(v):
        if isinstance(v, Adt) and v.tag:
            return v.tag
        if isinstance(v, Int):
            return ("int", str(z3.simplify(v.e)))
        if isinstance(v, Str):
            return ("str", v.s)
        if isinstance(v, Adt) and v.lazy is not None:
            return ("obj", v.lazy.name)
        return ("?", repr(v)[:40])

    def h_arg(call):
        a = Adt("fmt::Argument", None)
        a.tag = ("operand", ident(end_value(call.argv[0])), call.callee.split("::")[-1])
        return a

    def h_write(call):
        args = call.argv[1]
        if isinstance(args, (Str, Ref)) and call.norm.endswith("write_str"):
            sv = end_value(args)
            call.m.event("write", (sv.s if isinstance(sv, Str) else ("unknown",),))
            return eng.mk_enum("Result", "Ok", UNIT)
        tag = args.tag if isinstance(args, Adt) else None
        pieces = []
        if tag and tag[0] == "fmt":
            ops = list(tag[2] or ())
            if ops or tag[1].startswith('b"') or "\\x" in tag[1]:
                for pc in decode_fmt_template(tag[1]):
                    if pc[0] == "lit":
                        pieces.append(pc[1])
                    else:
                        o = ops.pop(0) if ops else None
                        pieces.append(("arg", o[1] if o else None))
            else:
                pieces.append(tag[1])
        else:
            pieces.append(("unknown",))
        call.m.event("write", tuple(pieces))
        return eng.mk_enum("Result", "Ok", UNIT)
    return [(re.compile(r"rt::Argument::new_(display|debug)$"), h_arg), (re.compile(r"Formatter::write_fmt$|Formatter::write_str$"), h_write)]


def rendered(p):
    out = []
    for e in p.trace:
        if e[0] == "write":
            for x in e[1]:
                if isinstance(x, str):
                    out.append(x)
                else:
                    idn = x[1]
                    if isinstance(idn, tuple) and idn and idn[0] == "str":
                        out.append(idn[1])
                    else:
                        out.append("{" + ":".join(map(str, idn or ("?",))) + "}")
    return "".join(out).replace("\\n", "\n").replace('\\"', '"')


def unit_mismatch_msg(eng, tier, prop):
    """C19: the header of a mismatch report entry names the ARGUMENT POSITION (and, when several patterns contribute, the
    pattern index): `<kind> mismatch for input #<input_index>` / `... call pattern #<pat_index>, input #<input_index>`."""
    u = Unit(eng, "mismatch-msg", ["<MismatchMsg as Display>::fmt"], "pattern index, input index (64-bit), uniqueness flag, mismatch kind, comparison flag all symbolic")
    cands = [g for g in eng.fns if g.short == "fmt" and g.params and g.params[0][1].replace(" ", "") in ("&MismatchMsg", "&mismatch::MismatchMsg")]
    u.must_be_true("C19.mismatch-header-impl-found", len(cands) == 1, {"n": len(cands)})
    if len(cands) != 1:
        return u.result()
    hs = fmt_capture(eng)
    for h in hs:
        eng.handlers.insert(0, h)
    try:
        msg = Adt("MismatchMsg", None)
        pi = Adt("PatIndex", None)
        pi.fields[(None, 0)] = Cell(Int(eng.named("pat_index", 64), 64, False), None, "pat_index")
        ii = Adt("InputIndex", None)
        ii.fields[(None, 0)] = Cell(Int(eng.named("input_index", 64), 64, False), None, "input_index")
        uniq = eng.named_bool("is_unique_pat")
        cmpf = eng.named_bool("has_comparison")
        kind = eng.named("kind", 64)
        nk = len(eng.enums["MismatchKind"])
        msg.fields[(None, field_index(eng, "MismatchMsg", "pat_index"))] = Cell(pi, None, "pi")
        msg.fields[(None, field_index(eng, "MismatchMsg", "input_index"))] = Cell(ii, None, "ii")
        msg.fields[(None, field_index(eng, "MismatchMsg", "is_unique_pat"))] = Cell(Bool(uniq), None, "uniq")
        msg.fields[(None, field_index(eng, "MismatchMsg", "has_comparison"))] = Cell(Bool(cmpf), None, "cmp")
        msg.fields[(None, field_index(eng, "MismatchMsg", "mismatch_kind"))] = Cell(Adt("MismatchKind", Int(kind, 64, False)), None, "kind")
        mach = eng.start(cands[0], [Ref(Cell(msg, None, "msg")), Ref(Cell(Adt("Formatter", None), None, "f"))])
        mach.pc.append(z3.ULT(kind, nk))
        paths = eng.explore(mach)
        u.paths += len(paths)
        cover = []
        names = {"Pattern": "Pattern mismatch for ", "Eq": "Equality mismatch for ", "Ne": "Inequality mismatch for "}
        for p in paths:
            if p.outcome[0] in ("unknown", "bound"):
                u.errors.append(f"mismatch header: {p.outcome[0]}: {p.outcome[1]}")
                continue
            if eng.check(p.pc) != z3.sat:
                continue
            cover.append(z3.And(p.pc) if p.pc else z3.BoolVal(True))
            u.must_be_true("C19.mismatch-header-never-panics", p.outcome[0] == "return", {"outcome": repr(p.outcome)[:160]})
            if p.outcome[0] != "return":
                continue
            text = rendered(p)
            is_u = eng.check(list(p.pc) + [z3.Not(uniq)]) != z3.sat
            not_u = eng.check(list(p.pc) + [uniq]) != z3.sat
            pos = "input #{int:input_index}" if is_u else ("call pattern #{int:pat_index}, input #{int:input_index}" if not_u else None)
            ok = pos is not None and any(text.startswith(v + pos) for v in names.values()) and text.rstrip().endswith(":")
            u.must_be_true("C19.mismatch-header-names-the-argument-position", ok, {"rendered": text, "unique_pattern": is_u})
            for vn, lead in names.items():
                if text.startswith(lead):
                    u.must_hold("C19.mismatch-header-kind-word-matches-the-kind", p.pc, kind == eng.variant_index("MismatchKind", vn), {"rendered": text})
        u.must_be_unsat("C19.mismatch-header-covers-every-input", [z3.ULT(kind, nk), z3.Not(z3.Or(cover))] if cover else [z3.BoolVal(True)])
        u.witness("both header forms rendered", [z3.BoolVal(len(cover) >= 4)])
    finally:
        for h in hs:
            eng.handlers.remove(h)
    return u.result()


def unit_expected_pattern(eng, tier, prop):
    """C19: the wrong-order error names the pattern that owns the expected slot: `find_ordered_expected_call_pattern_debug`
    returns the debug rendering of the FIRST ordered method (in table order) that owns the index, whatever unordered
    methods come before it; None only when no ordered method owns it."""
    Mmax = 3 if tier == "thorough" else 2
    u = Unit(eng, "expected-pattern", ["SharedState::find_ordered_expected_call_pattern_debug"], f"method table with M=0..{Mmax + 1} entries, match mode and slot ownership of every entry symbolic")
    f = eng.find_fn(r"find_ordered_expected_call_pattern_debug$")
    nm = len(eng.enums["PatternMatchMode"])
    INORDER = eng.variant_index("PatternMatchMode", "InOrder")

    def idx_of(call, r):
        v = call.deref(r, "adt")
        return v.tag[1] if isinstance(v, Adt) and v.tag and v.tag[0] == "mocker" else None

    def h_owner(call):
        i = idx_of(call, call.argv[0])
        if i is None:
            raise Unsupported("slot lookup on an untracked FnMocker")
        own = eng.named_bool(f"owns[{i}]")
        k = eng.decide(call.m, ("owner", call.fr.bb, i), [own, z3.Not(own)])
        call.m.event("asked_owner", i)
        if k == 1:
            return eng.mk_enum("Option", "None")
        t = Adt("(tuple)", None)
        pi = Adt("PatIndex", None)
        pi.tag = ("pat_of", i)
        t.fields[(None, 0)] = Cell(pi, None, "t0")
        t.fields[(None, 1)] = Cell(Ref(Cell(Opaque("CallPattern", f"pattern_of_{i}"), None, "pat")), None, "t1")
        return eng.mk_enum("Option", "Some", t)

    def h_debug(call):
        i = idx_of(call, call.argv[0])
        pi = call.argv[1]
        d = Adt("CallPatternDebug", None)
        d.tag = ("debug_of", i, pi.tag[1] if isinstance(pi, Adt) and pi.tag else None)
        return d
    hs = [(re.compile(r"^FnMocker::find_call_pattern_for_call_order$"), h_owner), (re.compile(r"^FnMocker::debug_pattern$"), h_debug)]
    for h in hs:
        eng.handlers.insert(0, h)
    try:
        for M in range(0, Mmax + 2):
            st = lazy_adt("SharedState", "state")
            entries = []
            modes = []
            for i in range(M):
                fm = lazy_adt("FnMocker", f"mocker{i}")
                fm.tag = ("mocker", i)
                md = eng.named(f"mode[{i}]", 64)
                modes.append(md)
                fm.fields[(None, field_index(eng, "FnMocker", "pattern_match_mode"))] = Cell(Adt("PatternMatchMode", Int(md, 64, False)), None, f"mode{i}")
                entries.append((Cell(Int(eng.named(f"key{i}", 64), 64, False), None, f"key{i}"), Cell(fm, "FnMocker", f"mocker{i}")))
            st.fields[(None, field_index(eng, "SharedState", "fn_mockers"))] = Cell(MapVal(entries), None, "state.fn_mockers")
            mach = eng.start(f, [Ref(Cell(st, None, "state")), Int(eng.named("ordered_index", 64), 64, False)])
            dom = [z3.ULT(md, nm) for md in modes]
            mach.pc += dom
            paths = eng.explore(mach)
            u.paths += len(paths)
            cover = []
            elig = [z3.And(modes[i] == INORDER, eng.named_bool(f"owns[{i}]")) for i in range(M)]
            for p in paths:
                if p.outcome[0] in ("unknown", "bound"):
                    u.errors.append(f"expected-pattern[M={M}]: {p.outcome[0]}: {p.outcome[1]}")
                    continue
                if eng.check(p.pc) != z3.sat:
                    continue
                cover.append(z3.And(p.pc) if p.pc else z3.BoolVal(True))
                u.must_be_true(f"C19.expected-pattern-lookup-never-panics[M={M}]", p.outcome[0] == "return", {"outcome": repr(p.outcome)[:160]})
                if p.outcome[0] != "return":
                    continue
                r = p.outcome[1]
                some = isinstance(r, Adt) and r.discr == eng.variant_index("Option", "Some")
                if some:
                    d = r.fields[("Some", 0)].val
                    i = d.tag[1] if isinstance(d, Adt) and d.tag and d.tag[0] == "debug_of" else None
                    u.must_be_true(f"C19.expected-pattern-is-rendered-from-its-own-method-and-index[M={M}]", i is not None and d.tag[2] == i, {"debug": repr(d)[:100]})
                    if i is not None:
                        u.must_hold(f"C19.named-pattern-is-the-first-ordered-owner-of-the-slot[M={M}]", p.pc, z3.And([elig[i]] + [z3.Not(elig[j]) for j in range(i)]), {"named": i})
                else:
                    u.must_hold(f"C19.no-pattern-named-only-if-no-ordered-method-owns-the-slot[M={M}]", p.pc, z3.Not(z3.Or(elig)) if elig else z3.BoolVal(True), {"M": M})
            u.must_be_unsat(f"C19.expected-pattern-lookup-covers-every-table[M={M}]", dom + [z3.Not(z3.Or(cover))] if cover else [z3.BoolVal(True)])
        u.witness("tables explored", [z3.BoolVal(u.paths >= 4)])
    finally:
        for h in hs:
            eng.handlers.remove(h)
    return u.result()


def _e1_selfcheck(eng, tier, prop, root=None):
    from . import selfcheck
    return selfcheck.unit_e1_selfcheck(eng, tier, prop, root=root)


UNITS = {
    "e1_selfcheck": _e1_selfcheck,
    "mismatch_msg": unit_mismatch_msg,
    "expected_pattern": unit_expected_pattern,
    "chain_schedules": unit_chain_schedules,
    "display_call": unit_display_call,
    "generated_forwarding": _generated_forwarding,
    "output_containers": unit_output_containers,
    "mirror_wiring": unit_mirror_wiring,
    "delegators": unit_delegators,
    "schedules": unit_schedules,
    "call_path": unit_call_path,
    "builder_chains": unit_builder_chains,
    "assembler": unit_assembler,
    "eval_dyn": unit_eval_dyn,
    "locked_closures": unit_locked_closures,
    "eval_generic": unit_eval_generic,
    "tuples": unit_tuples,
    "construction": unit_construction,
    "statics": unit_statics,
    "counter_verify": unit_counter_verify,
    "fn_mocker_verify": unit_fn_mocker_verify,
    "induce_panic": unit_induce_panic,
    "teardown": unit_teardown,
    "drop_flags": unit_torn_down_flag,
    "teardown_wrappers": unit_teardown_wrappers,
}


def run(prop, tier, seed, root, names, units, replays):
    t0 = time.time()
    try:
        mir, repo, dt = dump_mir(root, "std")
    except Exception as e:
        units.append({"engine": "mirsym", "name": "mir-dump", "status": "error", "note": str(e)[-800:], "obligations": 0})
        return
    eng = Engine(mir, repo)
    global CROSS_CHECK
    CROSS_CHECK = tier == "thorough"
    names = list(names)
    if tier == "thorough" and prop in ("C03", "C08", "C19"):
        names.append("e1_selfcheck")
    for n in names:
        fn = UNITS[n]
        try:
            r = fn(eng, tier, prop, root=root) if n in ("mirror_wiring", "generated_forwarding", "e1_selfcheck") else fn(eng, tier, prop)
        except (KeyError, Unsupported) as e:
            r = {"engine": "mirsym", "name": n, "status": "error", "note": f"stale query (source changed?): {e!r}", "obligations": 0}
        except Exception as e:
            import traceback
            traceback.print_exc()
            r = {"engine": "mirsym", "name": n, "status": "error", "note": f"engine exception: {e!r}", "obligations": 0}
        r["mir_dump_s"] = round(dt, 1)
        if r["status"] == "failed":
            from . import replay
            replay.replay_mirsym(prop, r, root, replays)
        units.append(r)
