"""Native replay of E1 (MIR/z3) counterexamples through unimock's public API.

A solver model is mapped to a concrete scenario of replay_crate (plus a small neighbourhood of scenarios around it);
each scenario runs as a child process against the real crate (dev and release profile); the observed behaviour is
compared with what the *property* demands. Only a scenario whose observed behaviour contradicts the property counts
as a reproduced violation."""
import os, re, json, subprocess, shutil, itertools

from . import scratch

VERIF = scratch.VERIF
_built = {}


def build(root, profile="dev", gen_src=None):
    key = (root, profile, hash(gen_src))
    if key in _built:
        return _built[key]
    work = os.path.join(root, "replay")
    repo = os.path.join(work, "repo")
    if not os.path.exists(repo):
        scratch.copy_repo(work)
    crate = os.path.join(work, "crate")
    os.makedirs(os.path.join(crate, "src"), exist_ok=True)
    tm = open(os.path.join(VERIF, "replay_crate", "Cargo.toml.tmpl")).read().replace("@REPO@", repo)
    open(os.path.join(crate, "Cargo.toml"), "w").write(tm)
    main_src = open(os.path.join(VERIF, "replay_crate", "src", "main.rs")).read()
    open(os.path.join(crate, "src", "main.rs"), "w").write(main_src)
    if gen_src is None:
        shutil.copy(os.path.join(VERIF, "replay_crate", "src", "gen.rs"), os.path.join(crate, "src", "gen.rs"))
    else:
        open(os.path.join(crate, "src", "gen.rs"), "w").write(gen_src)
    shutil.copy(os.path.join(repo, "Cargo.lock"), os.path.join(crate, "Cargo.lock"))
    cmd = ["cargo", "build", "--offline", "--target-dir", os.path.join(work, "target")]
    if profile == "release":
        cmd.append("--release")
    p = subprocess.run(cmd, cwd=crate, stdout=subprocess.PIPE, stderr=subprocess.STDOUT, text=True,
                       env=dict(os.environ, CARGO_NET_OFFLINE="true"))
    if p.returncode != 0 and re.search(r"--> src/main\.rs:", p.stdout):
        # the fixed fall-through traits no longer compile against this tree (the macro rejects / mis-expands them): build
        # without them; their scenarios then report outcome "skipped" (never counted as a reproduction)
        stub = ('fn fallthrough(_p: &HashMap<String, String>) {\n    obs("skipped", "the fall-through traits do not compile against this tree")\n}\n')
        main2 = re.sub(r"(?s)//@ft-begin\n.*?//@ft-end\n", stub, main_src)
        open(os.path.join(crate, "src", "main.rs"), "w").write(main2)
        p = subprocess.run(cmd, cwd=crate, stdout=subprocess.PIPE, stderr=subprocess.STDOUT, text=True,
                           env=dict(os.environ, CARGO_NET_OFFLINE="true"))
    if p.returncode != 0:
        _built[key] = (None, p.stdout[-3000:])
    else:
        built = os.path.join(work, "target", "debug" if profile == "dev" else "release", "uv_replay")
        # the same target dir is reused for several generated programs: keep a copy per (profile, program)
        keep = os.path.join(work, f"uv_replay-{profile}-{abs(hash(gen_src)) % (10 ** 12)}")
        shutil.copy2(built, keep)
        _built[key] = (keep, "")
    return _built[key]


def run_scenario(binary, scenario, params, timeout=60):
    args = [binary, scenario] + [f"{k}={v}" for k, v in params.items()]
    try:
        p = subprocess.run(args, stdout=subprocess.PIPE, stderr=subprocess.PIPE, text=True, timeout=timeout)
    except subprocess.TimeoutExpired:
        return {"outcome": "timeout", "msg": "", "rc": None}
    m = re.search(r"^OBS outcome=(\w+) msg=(.*)$", p.stdout, re.M)
    if m:
        return {"outcome": m.group(1), "msg": m.group(2), "rc": p.returncode}
    if p.returncode in (-6, 134):
        return {"outcome": "abort", "msg": p.stderr[-300:], "rc": p.returncode}
    return {"outcome": "exit", "msg": p.stderr[-300:], "rc": p.returncode}


# ------------------------------------------------------------------------------------- property oracles (lifecycle)
def expected_lifecycle(p):
    """What C03/C08/C09/C11 demand for a lifecycle scenario. Returns (outcome, msg-substring or None)."""
    b = lambda k: str(p.get(k, 0)) not in ("0", "false", "False", "")
    who_clone = p.get("who") == "clone"
    action = p.get("action", "drop")
    if b("panicking"):
        # C11: never a second panic => the child reports the *first* panic, no abort
        return ("panic", "user panic (first)")
    if action == "noverify_clone_of_disabled":
        return ("panic", "cloned instance")
    if who_clone:
        if action in ("verify", "noverify"):
            return ("panic", "cloned instance")
        if action == "report":
            return None          # not specified for clones
        return ("ok", None)     # C09: dropping a clone never verifies, never panics
    if action == "noverify":
        return ("ok", None)
    if action == "noverify_report":
        action = "report"
    live = int(p.get("clones", 0)) > 0
    if live:
        return ("panic", "clones still alive")
    if b("other_thread"):
        return ("panic", "different thread")
    if int(p.get("recorded", 0)) > 0:
        if action == "report":
            return ("panic", "EXITCODE FAILURE")
        # C08: the message contains the text of EVERY recorded error
        return ("panic", ["Foo::foo(%d): No matching call patterns" % (99 - k) for k in range(int(p.get("recorded", 0)))])
    if b("unmet"):
        return ("panic", "EXITCODE FAILURE" if action == "report" else "to match exactly 1 call")
    return ("ok", None)


def matches(obs, exp):
    if obs["outcome"] == "skipped":
        return True
    if obs["outcome"] != exp[0]:
        return False
    want = exp[1]
    if want is None:
        return True
    if isinstance(want, str):
        want = [want]
    return all(w in obs["msg"] for w in want)


def lifecycle_neighbourhood(seed_params):
    """The model's scenario first, then a fixed battery around it."""
    out = [dict(seed_params)]
    out.append(dict(who="original", action="noverify_clone_of_disabled", panicking=0, clones=0, other_thread=0, recorded=0, unmet=0, helper=0))
    out.append(dict(who="original", action="noverify_clone_of_disabled", panicking=0, clones=0, other_thread=0, recorded=0, unmet=1, helper=0))
    for who, action in (("original", "drop"), ("original", "verify"), ("original", "report"), ("clone", "drop"), ("original", "noverify"), ("original", "noverify_report")):
        for panicking, clones, other, recorded, unmet, helper in itertools.product((0, 1), (0, 1), (0, 1), (0, 1, 2), (0, 1), (0, 1)):
            if action in ("noverify", "noverify_report") and panicking:
                continue
            q = dict(who=who, action=action, panicking=panicking, clones=clones, other_thread=other, recorded=recorded, unmet=unmet, helper=helper)
            if q not in out:
                out.append(q)
            if recorded and not helper:
                q2 = dict(q, via_original=1)
                if q2 not in out:
                    out.append(q2)
            if who == "original" and not clones and not other and not helper:
                q3 = dict(q, chain_clone=1)
                if q3 not in out:
                    out.append(q3)
    return out


def model_to_lifecycle(model, eng_struct_idx=None):
    def gv(pattern, default=None):
        for k, v in model.items():
            if re.search(pattern, k):
                return v
        return default
    p = {"who": "original", "action": "drop"}
    orig = gv(r"^u\.\d+$")   # best effort: the only bool field read first is original_instance
    for k, v in model.items():
        if re.fullmatch(r"u\.3", k) and v == "False":
            p["who"] = "clone"
    p["panicking"] = 1 if gv(r"env\.panicking") == "True" else 0
    sc = gv(r"env\.strong_count")
    try:
        p["clones"] = 1 if sc is not None and int(sc) > 1 else 0
    except ValueError:
        p["clones"] = 0
    p["other_thread"] = 1 if gv(r"env\.other_thread") == "True" else 0
    ln = gv(r"mutex\.0\.len")
    p["recorded"] = 1 if ln not in (None, "0") else 0
    p["helper"] = 1 if gv(r"taken:u\.\d+\.discr") == "1" else 0
    errs = [v for k, v in model.items() if k.startswith("errs[")]
    p["unmet"] = 1 if any(e not in ("0",) for e in errs) else 0
    return p


def replay_lifecycle(prop, unit, root, replays, models):
    """Returns (reproduced: True/False/None, detail text)."""
    lines = []
    reproduced = False
    ran = 0
    for profile in ("dev", "release"):
        binary, err = build(root, profile)
        if binary is None:
            return None, "replay crate did not build:\n" + err
        seen = []
        for md in models or [{}]:
            seed = model_to_lifecycle(md or {})
            for sc in lifecycle_neighbourhood(seed):
                if sc in seen:
                    continue
                seen.append(sc)
                exp = expected_lifecycle(sc)
                if exp is None:
                    continue
                obs = run_scenario(binary, "lifecycle", sc)
                ran += 1
                ok = matches(obs, exp)
                if not ok:
                    reproduced = True
                    lines.append(f"[{profile}] scenario {json.dumps(sc)}\n    property demands: {exp}\n    observed: {obs}")
            if reproduced and profile == "dev":
                break
    head = f"{ran} native scenario runs (public API, child processes, dev+release)\n"
    return (True if reproduced else False), head + "\n".join(lines[:12])


LIFECYCLE_UNITS = {"teardown", "drop+flags", "teardown_panic/report", "induce_panic"}


def replay_mirsym(prop, unit, root, replays):
    models = [f.get("model") for f in unit.get("model", [])]
    rp = os.path.join(VERIF, "evidence", "replays", f"{prop}-{unit['name'].replace('/', '_')}.txt")
    os.makedirs(os.path.dirname(rp), exist_ok=True)
    from . import replay_more
    if unit["name"] in LIFECYCLE_UNITS:
        ok, detail = replay_lifecycle(prop, unit, root, replays, models)
        if ok is not True and (unit["name"] in replay_more.GENERATORS or unit["name"] in replay_more.BATTERIES):
            ok2, d2 = replay_more.replay(prop, unit, root, models)
            if ok2 is not None:
                ok, detail = ok2, (detail or "") + "\n" + (d2 or "")
    else:
        ok, detail = replay_more.replay(prop, unit, root, models)
    with open(rp, "w") as f:
        f.write(f"property={prop}\nunit={unit['name']} (MIR symbolic execution + z3)\nfailing queries:\n")
        for q in unit.get("model", []):
            f.write("  " + json.dumps(q, default=str)[:600] + "\n")
        f.write(f"\nreproduced_natively={ok}\n\n{detail}\n")
    unit["replay_reproduced"] = ok
    unit["replay"] = rp
    unit["failed_checks"] = [q["query"] for q in unit.get("model", [])]
    replays.append((unit["name"], ok, rp, unit["failed_checks"][:3]))
