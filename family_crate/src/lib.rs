//! Trait-shape family for the E1 unit `generated-forwarding` (C05 / C07 / C15 / C16): the macro expands these, the MIR of
//! the generated impls is dumped and executed symbolically. The declarations below are the independent reference.
#![allow(dead_code, unused_variables)]
use std::pin::Pin;
use std::rc::Rc;
use std::sync::Arc;
use unimock::*;

//@trait-begin Recv
#[unimock(api = RecvMock)]
pub trait Recv {
    fn by_ref(&self, a: u8, b: u16) -> u32;
    fn by_mut(&mut self, a: u8, b: u16) -> u32;
    fn by_val(self, a: u8, b: u16) -> u32;
    fn by_rc(self: Rc<Self>, a: u8, b: u16) -> u32;
    fn by_arc(self: Arc<Self>, a: u8, b: u16) -> u32;
    fn by_pin(self: Pin<&mut Self>, a: u8, b: u16) -> u32;
}
//@trait-end Recv

//@trait-begin Param
#[unimock(api = ParamMock)]
pub trait Param {
    fn zero(&self) -> u8;
    fn one(&self, a: u8) -> u8;
    fn refs<'a>(&self, a: &u8, b: &'a mut i32, c: &str, d: &[u8]) -> u8;
    fn five(&self, a: u8, b: u16, c: bool, d: &u8, e: &mut u8) -> u32;
    fn six_mut(&mut self, a: u8, b: u16, c: bool, d: &u8, e: &mut u8, f: i64) -> u32;
    fn imp(&self, x: impl Into<u16> + 'static) -> u16;
    fn borrow_ret(&self, a: u8) -> &u8;
    fn opt_borrow_ret(&self, a: u8, b: u8) -> Option<&str>;
}
//@trait-end Param

//@trait-begin Gen
#[unimock(api = GenMock)]
pub trait Gen<T: 'static> {
    fn g(&self, t: T, k: u8) -> T;
    fn h(&mut self, k: u8, t: T) -> u8;
}
//@trait-end Gen

//@trait-begin Both
#[unimock(api = BothMock, unmock_with = [real_both, _, real_c(a), real_mutm, _, _])]
pub trait Both {
    fn both(&self, a: u8) -> u8 {
        a.wrapping_add(1)
    }
    fn none(&self, a: u8) -> u8;
    fn c(&self, a: u8, b: u8) -> u8;
    fn mutm(&mut self, a: u8) -> u8 {
        a
    }
    fn only_default(&self, a: u8) -> u8 {
        a
    }
    fn only_default_mut(&mut self, a: u8, b: u8) -> u8 {
        b
    }
}
pub fn real_both(_: &impl Both, a: u8) -> u8 {
    a
}
pub fn real_c(a: u8) -> u8 {
    a
}
pub fn real_mutm(_: &mut impl Both, a: u8) -> u8 {
    a
}
//@trait-end Both

//@trait-begin Shift
#[unimock(api = ShiftMock, unmock_with = [_, real_shift_a, _, real_shift_b])]
pub trait Shift {
    fn s0(&self, a: u8) -> u8;
    fn s1(&self, a: u8) -> u8;
    fn s2(&self, a: u8) -> u8;
    fn s3(&self, a: u8) -> u8;
}
pub fn real_shift_a(_: &impl Shift, a: u8) -> u8 {
    a
}
pub fn real_shift_b(_: &impl Shift, a: u8) -> u8 {
    a.wrapping_add(1)
}
//@trait-end Shift

//@trait-begin Gen2
#[unimock(api = Gen2Mock)]
pub trait Gen2<T: 'static> {
    fn m<U: 'static>(&self, t: T, u: U) -> u8;
}
/// `with_types` takes the trait-level type arguments first, then the method-level ones
pub fn gen2_with_types() -> impl Sized {
    Gen2Mock::m.with_types::<u8, u16>()
}
//@trait-end Gen2

//@trait-begin Hid
#[unimock(unmock_with = [real_hid, _])]
pub trait Hid {
    fn hid(&self, a: u8) -> u8;
    fn hid2(&self, a: u8) -> u8;
}
pub fn real_hid(_: &impl Hid, a: u8) -> u8 {
    a
}
//@trait-end Hid

//@trait-begin Konst
#[unimock(api = KonstMock, const K: u8 = 7; const J: u8 = 9;)]
pub trait Konst {
    const K: u8 = 1;
    const J: u8;
    fn kreq(&self, a: u8) -> u8;
    fn kprov(&self, a: u8) -> u8 {
        self.kreq(a.wrapping_add(Self::K).wrapping_add(Self::J))
    }
}
//@trait-end Konst

//@trait-begin Sinky
pub struct Sink<'a>(pub &'a mut u8);
#[unimock(api = SinkyMock)]
pub trait Sinky {
    fn put(&mut self, s: &mut Sink<'_>, v: u8) -> u8;
    fn put_ref(&self, s: &mut Sink<'_>, v: u8) -> u8;
}
//@trait-end Sinky

//@trait-begin Flat
#[unimock(api = [FlatMake, FlatA, FlatB])]
pub trait Flat {
    fn make() -> u8
    where
        Self: Sized,
    {
        1
    }
    fn fa(&self, a: u8) -> u8;
    fn fb(&self, a: u8, b: u8) -> u8;
}
//@trait-end Flat
